(* C06 — the reader (FontRef::new, table_directory, table_data) run on a built file *)
From Coq Require Import ZArith Lia List Bool Sorted Permutation.
From FV Require Import Lib.RustInt C06.Model C06.Checksum C06.BSearch C06.MapLemmas C06.Proofs.
Import ListNotations.
Open Scope Z_scope.
Ltac Zify.zify_post_hook ::= Z.div_mod_to_equations.

Definition u16 (z : Z) : Prop := 0 <= z < 65536.
Definition rec_ok (r : record) : Prop := u32 (r_tag r) /\ u32 (r_cksum r) /\ u32 (r_offset r) /\ u32 (r_length r).

Lemma from_to_be4 v : u32 v -> from_be (to_be 4 v) = v.
Proof. intros H. apply from_to_be. unfold u32 in H. change (256 ^ Z.of_nat 4) with 4294967296. lia. Qed.
Lemma from_to_be2 v : u16 v -> from_be (to_be 2 v) = v.
Proof. intros H. apply from_to_be. unfold u16 in H. change (256 ^ Z.of_nat 2) with 65536. lia. Qed.

(* ---------- header fields ---------- *)
Lemma dir_fields v n sr es rs rest :
  u32 v -> u16 n -> u16 sr -> u16 es -> u16 rs ->
  let data := to_be 4 v ++ to_be 2 n ++ to_be 2 sr ++ to_be 2 es ++ to_be 2 rs ++ rest in
  len data = 12 + len rest /\ u32_at data 0 = v /\ read_u 2 data 4 = Some n /\
  u16_at data 6 = sr /\ u16_at data 8 = es /\ u16_at data 10 = rs /\ skipn 12 data = rest.
Proof.
  intros Hv Hn Hsr Hes Hrs data.
  assert (Hlen : len data = 12 + len rest).
  { subst data. rewrite !len_app, !to_be_len. lia. }
  pose proof (from_to_be4 v Hv) as Ev. pose proof (from_to_be2 n Hn) as En.
  pose proof (from_to_be2 sr Hsr) as Esr. pose proof (from_to_be2 es Hes) as Ees.
  pose proof (from_to_be2 rs Hrs) as Ers.
  cbn [to_be] in Ev, En, Esr, Ees, Ers.
  split; [exact Hlen|].
  unfold u32_at, u16_at, read_u, slice. rewrite Hlen.
  pose proof (len_nonneg' rest) as Hr.
  replace (4 + 2 <=? 12 + len rest) with true by lia.
  change (Z.to_nat 0) with 0%nat. change (Z.to_nat 2) with 2%nat. change (Z.to_nat 4) with 4%nat.
  change (Z.to_nat 6) with 6%nat. change (Z.to_nat 8) with 8%nat. change (Z.to_nat 10) with 10%nat.
  subst data. cbn [to_be app skipn firstn obind].
  repeat split; try assumption. f_equal. assumption.
Qed.

(* ---------- records ---------- *)
Lemma len_record_bytes r : len (record_bytes r) = 16.
Proof. unfold record_bytes. rewrite !len_app, !to_be_len. reflexivity. Qed.
Lemma len_flat_records recs : len (flat_map record_bytes recs) = 16 * len recs.
Proof.
  induction recs as [|r recs IH]; [reflexivity|].
  cbn [flat_map]. rewrite len_app, len_record_bytes, IH, len_cons. lia.
Qed.

Lemma parse_records_ok recs rest : Forall rec_ok recs ->
  parse_records (length recs) (flat_map record_bytes recs ++ rest) = recs.
Proof.
  induction 1 as [|r recs Hr _ IH]; [reflexivity|].
  destruct r as [[[t c] o] l]. destruct Hr as (Ht & Hc & Ho & Hl). cbn [r_tag r_cksum r_offset r_length] in *.
  pose proof (from_to_be4 t Ht) as Et. pose proof (from_to_be4 c Hc) as Ec.
  pose proof (from_to_be4 o Ho) as Eo. pose proof (from_to_be4 l Hl) as El.
  cbn [to_be] in Et, Ec, Eo, El.
  cbn [length flat_map]. rewrite <- app_assoc. set (tail := flat_map record_bytes recs ++ rest) in *.
  unfold record_bytes. cbn [r_tag r_cksum r_offset r_length]. rewrite <- !app_assoc.
  cbn [parse_records]. unfold u32_at.
  change (Z.to_nat 0) with 0%nat. change (Z.to_nat 4) with 4%nat.
  change (Z.to_nat 8) with 8%nat. change (Z.to_nat 12) with 12%nat.
  cbn [to_be app skipn firstn]. rewrite Et, Ec, Eo, El. f_equal. exact IH.
Qed.

Lemma font_ref_new_dir sr es rs recs body :
  Forall rec_ok recs -> len recs <= 65535 -> u16 sr -> u16 es -> u16 rs ->
  font_ref_new (directory_bytes sr es rs recs ++ body) =
  Some (mk_fontref (directory_bytes sr es rs recs ++ body) 65536 (len recs) sr es rs recs).
Proof.
  intros Hrecs Hn Hsr Hes Hrs.
  assert (Hv : u32 65536) by (unfold u32; lia).
  assert (Hn' : u16 (len recs)) by (unfold u16; pose proof (len_nonneg' recs); lia).
  pose proof (dir_fields 65536 (len recs) sr es rs (flat_map record_bytes recs ++ body) Hv Hn' Hsr Hes Hrs) as H.
  cbv zeta in H.
  assert (Hshape : directory_bytes sr es rs recs ++ body =
            to_be 4 65536 ++ to_be 2 (len recs) ++ to_be 2 sr ++ to_be 2 es ++ to_be 2 rs
            ++ flat_map record_bytes recs ++ body).
  { unfold directory_bytes, TT_SFNT_VERSION. rewrite <- !app_assoc. reflexivity. }
  rewrite <- Hshape in H. destruct H as (Hlen & H0 & H4 & H6 & H8 & H10 & Hskip).
  unfold font_ref_new. rewrite H4. cbn [obind]. rewrite Hlen, len_app, len_flat_records.
  pose proof (len_nonneg' body) as Hb. pose proof (len_nonneg' recs) as Hr.
  replace (12 + (16 * len recs + len body) <? 12 + len recs * 16) with false by lia.
  rewrite H0. change (65536 =? 65536) with true. cbn [orb].
  rewrite H6, H8, H10, Hskip. replace (Z.to_nat (len recs)) with (length recs) by (unfold len; rewrite Nat2Z.id; reflexivity).
  rewrite parse_records_ok by assumption. reflexivity.
Qed.

(* ---------- table_data ---------- *)
Lemma slice_mid (p x q : list Z) : slice (p ++ x ++ q) (len p) (len x) = Some x.
Proof.
  unfold slice. rewrite !len_app. pose proof (len_nonneg' q).
  replace (len p + len x <=? len p + (len x + len q)) with true by lia.
  unfold len. rewrite !Nat2Z.id. rewrite skipn_app_exact by reflexivity.
  rewrite firstn_app_exact by reflexivity. reflexivity.
Qed.

Lemma table_data_found data v n sr es rs recs r i :
  StronglySorted Z.lt (map r_tag recs) -> nth_error recs i = Some r -> r_offset r <> 0 ->
  table_data (mk_fontref data v n sr es rs recs) (r_tag r) = slice data (r_offset r) (r_length r).
Proof.
  intros Hs Hi Ho. unfold table_data. cbn [fr_records fr_data].
  rewrite (binary_search_found (map r_tag recs) (r_tag r) i Hs) by (apply map_nth_error; exact Hi).
  cbn [obind]. rewrite Nat2Z.id, Hi. cbn [obind].
  destruct (r_offset r =? 0) eqn:E; [apply Z.eqb_eq in E; contradiction|]. reflexivity.
Qed.

Lemma table_data_absent data v n sr es rs recs t :
  ~ In t (map r_tag recs) -> table_data (mk_fontref data v n sr es rs recs) t = None.
Proof. intros H. unfold table_data. cbn [fr_records]. rewrite binary_search_absent by exact H. reflexivity. Qed.

(* ---------- the body of the file ---------- *)
Lemma len_table_bytes adj t d : len (table_bytes adj (t, d)) = round4 (len d).
Proof.
  unfold table_bytes. rewrite len_app, splice_head_len, zero_head_len.
  rewrite (padding_of_eq_len (zero_head t d) d) by apply zero_head_len.
  unfold len at 2. rewrite repeat_length. pose proof (padding_of_range d).
  rewrite Z2Nat.id by lia. apply padding_of_len.
Qed.
Lemma len_flat_tb adj a : len (flat_map (table_bytes adj) a) = total_padded a.
Proof.
  induction a as [|[t d] a IH]; [reflexivity|].
  cbn [flat_map]. rewrite len_app, len_table_bytes, IH, total_padded_cons. reflexivity.
Qed.

Lemma round4_mod4 n : 0 <= n -> round4 n mod 4 = 0.
Proof. intros H. rewrite round4_spec by lia. apply Z.mod_mul. lia. Qed.
Lemma total_padded_mod4 a : total_padded a mod 4 = 0.
Proof.
  induction a as [|[t d] a IH]; [reflexivity|]. rewrite total_padded_cons. cbn [snd].
  pose proof (round4_mod4 (len d) (len_nonneg' d)). lia.
Qed.

(* ---------- records of a built file ---------- *)
Lemma records_at_ok tabs : forall pos, 0 <= pos -> pos + total_padded tabs < M32 ->
  Forall u32 (map fst tabs) -> Forall rec_ok (records_at pos tabs).
Proof.
  unfold M32. induction tabs as [|[t d] r IH]; intros pos Hp Hb Ht; [constructor|].
  cbn [records_at]. rewrite total_padded_cons in Hb. cbn [snd map fst] in *.
  inversion Ht as [|? ? Ht1 Ht2]; subst.
  pose proof (total_padded_nonneg r). pose proof (round4_ge (len d) (len_nonneg' d)). pose proof (len_nonneg' d).
  constructor.
  - unfold rec_ok, u32. cbn [r_tag r_cksum r_offset r_length].
    pose proof (compute_checksum_range (zero_head t d)). unfold u32 in Ht1. lia.
  - apply IH; [lia | lia | assumption].
Qed.

Section Built.
  Variable m : builder.
  Hypothesis Hpre : pre m.

  Let Hwf : wf m := proj1 Hpre.
  Let Htags : Forall u32 (keys m) := proj1 (proj2 Hpre).
  Let Hn : len m <= 4095 := proj1 (proj2 (proj2 Hpre)).
  Let Hsz : 12 + 16 * len m + total_padded m < M32 := proj2 (proj2 (proj2 Hpre)).

  Lemma ordered_keys_perm : Permutation (keys m) (map fst (ordered_entries m)).
  Proof. unfold keys. apply Permutation_map, ordered_entries_perm. Qed.

  Lemma recs_tags_nodup : NoDup (map r_tag (recs_of m)).
  Proof.
    unfold recs_of. rewrite records_at_tags.
    eapply Permutation_NoDup; [apply ordered_keys_perm | apply wf_NoDup_keys, Hwf].
  Qed.

  Lemma sorted_tags_sorted : StronglySorted Z.lt (map r_tag (sort_records (recs_of m))).
  Proof. apply sort_records_sorted, recs_tags_nodup. Qed.

  Lemma sorted_tags_eq : map r_tag (sort_records (recs_of m)) = keys m.
  Proof.
    apply (sorted_perm_unique Z (fun x => x)).
    - rewrite map_id. apply sorted_tags_sorted.
    - rewrite map_id. exact Hwf.
    - eapply perm_trans; [apply Permutation_map, Permutation_sym, sort_records_perm|].
      unfold recs_of. rewrite records_at_tags. apply Permutation_sym, ordered_keys_perm.
  Qed.

  Lemma recs_ok : Forall rec_ok (sort_records (recs_of m)).
  Proof.
    eapply Permutation_Forall; [apply sort_records_perm|].
    unfold recs_of. pose proof (len_nonneg' m).
    apply records_at_ok; [lia | | ].
    - rewrite <- (total_padded_perm _ _ (ordered_entries_perm m)). exact Hsz.
    - eapply Permutation_Forall; [apply ordered_keys_perm | exact Htags].
  Qed.

  Lemma file_shape : exists sr es rs,
    sr_of (len m) = (sr, es, rs) /\ u16 sr /\ u16 es /\ u16 rs /\
    file_of m = directory_bytes sr es rs (sort_records (recs_of m))
                ++ flat_map (table_bytes (adj_of m)) (ordered_entries m).
  Proof.
    pose proof (len_nonneg' m) as H0.
    pose proof (sr_of_u16 (len m) ltac:(lia)) as Hu. unfold file_of, dir_of.
    destruct (sr_of (len m)) as [[sr es] rs]. exists sr, es, rs. unfold u16. repeat split; try lia.
  Qed.

  (* FontRef::new succeeds on the built file and parses exactly the sorted records *)
  Lemma opens : exists sr es rs, sr_of (len m) = (sr, es, rs) /\
    font_ref_new (file_of m) =
    Some (mk_fontref (file_of m) 65536 (len m) sr es rs (sort_records (recs_of m))).
  Proof.
    destruct file_shape as (sr & es & rs & Esr & Hsr & Hes & Hrs & Hf).
    exists sr, es, rs. split; [exact Esr|]. rewrite Hf at 1.
    rewrite font_ref_new_dir; try assumption.
    - rewrite len_sorted_recs, <- Hf. reflexivity.
    - apply recs_ok.
    - rewrite len_sorted_recs. lia.
  Qed.

  Lemma len_dir_of : len (dir_of m) = 12 + 16 * len m.
  Proof.
    unfold dir_of. destruct (sr_of (len m)) as [[sr es] rs]. unfold directory_bytes.
    rewrite !len_app, !to_be_len, len_flat_records, len_sorted_recs. lia.
  Qed.

  (* where a given entry sits *)
  Lemma entry_located t d : lookup t m = Some d ->
    exists a b, ordered_entries m = a ++ (t, d) :: b /\
      In (t, compute_checksum (zero_head t d), 12 + 16 * len m + total_padded a, len d)
         (sort_records (recs_of m)) /\
      file_of m = (dir_of m ++ flat_map (table_bytes (adj_of m)) a)
                  ++ splice_head t (zero_head t d) (adj_of m)
                  ++ (repeat 0 (Z.to_nat (padding_of d)) ++ flat_map (table_bytes (adj_of m)) b) /\
      len (dir_of m ++ flat_map (table_bytes (adj_of m)) a) = 12 + 16 * len m + total_padded a.
  Proof.
    intros Hl. apply (lookup_In t d m Hwf) in Hl.
    assert (Hin : In (t, d) (ordered_entries m)) by (eapply Permutation_in; [apply ordered_entries_perm | exact Hl]).
    destruct (in_split _ _ Hin) as (a & b & Hab). exists a, b. split; [exact Hab|]. split; [|split].
    - eapply Permutation_in; [apply sort_records_perm|].
      unfold recs_of. rewrite Hab, records_at_app. apply in_or_app. right. cbn [records_at]. left. reflexivity.
    - unfold file_of. rewrite Hab, flat_map_app. cbn [flat_map]. unfold table_bytes at 2.
      rewrite (padding_of_eq_len (zero_head t d) d) by apply zero_head_len.
      rewrite <- !app_assoc. reflexivity.
    - rewrite len_app, len_dir_of, len_flat_tb. reflexivity.
  Qed.

  (* build_returns_tables: table_data of a supplied tag = the supplied bytes with, for a head table of
     at least 12 bytes, bytes 8..12 replaced by the checksum adjustment *)
  Lemma returns_tables t d : lookup t m = Some d ->
    exists f, font_ref_new (file_of m) = Some f /\
              table_data f t = Some (splice_head t (zero_head t d) (adj_of m)).
  Proof.
    intros Hl. destruct opens as (sr & es & rs & _ & Ho).
    eexists. split; [exact Ho|].
    destruct (entry_located t d Hl) as (a & b & Hab & Hin & Hfile & Hlen).
    destruct (In_nth_error _ _ Hin) as [i Hi].
    set (r := (t, compute_checksum (zero_head t d), 12 + 16 * len m + total_padded a, len d)) in *.
    change t with (r_tag r) at 2.
    pose proof (len_nonneg' m). pose proof (total_padded_nonneg a).
    rewrite (table_data_found _ _ _ _ _ _ _ r i sorted_tags_sorted Hi) by (subst r; cbn [r_offset]; lia).
    subst r. cbn [r_offset r_length]. rewrite <- Hlen.
    rewrite <- (zero_head_len t d), <- (splice_head_len t (zero_head t d) (adj_of m)).
    rewrite Hfile at 1. apply slice_mid.
  Qed.

  Lemma absent_none t : lookup t m = None ->
    exists f, font_ref_new (file_of m) = Some f /\ table_data f t = None.
  Proof.
    intros Hl. destruct opens as (sr & es & rs & _ & Ho). eexists. split; [exact Ho|].
    apply table_data_absent. rewrite sorted_tags_eq. apply lookup_none_not_in. exact Hl.
  Qed.

  (* build_lists_exactly *)
  Lemma lists_exactly : exists f, font_ref_new (file_of m) = Some f /\
    fr_sfnt f = 65536 /\ fr_num f = len m /\ map r_tag (fr_records f) = keys m /\
    StronglySorted Z.lt (map r_tag (fr_records f)) /\
    (fr_srange f, fr_esel f, fr_rshift f) = sr_of (len m).
  Proof.
    destruct opens as (sr & es & rs & Esr & Ho). eexists. split; [exact Ho|].
    cbn [fr_sfnt fr_num fr_records fr_srange fr_esel fr_rshift].
    repeat split; [apply sorted_tags_eq | apply sorted_tags_sorted | symmetry; exact Esr].
  Qed.

  (* build_record_checksums + build_aligned_padded, per directory record *)
  Lemma records_spec : exists f, font_ref_new (file_of m) = Some f /\
    len (file_of m) mod 4 = 0 /\
    forall r, In r (fr_records f) ->
      exists d p q, lookup (r_tag r) m = Some d /\
        r_cksum r = compute_checksum (zero_head (r_tag r) d) /\
        r_length r = len d /\ r_offset r mod 4 = 0 /\ 12 + 16 * len m <= r_offset r /\
        len p = r_offset r /\
        file_of m = p ++ splice_head (r_tag r) (zero_head (r_tag r) d) (adj_of m)
                      ++ repeat 0 (Z.to_nat (round4 (len d) - len d)) ++ q.
  Proof.
    destruct opens as (sr & es & rs & _ & Ho). eexists. split; [exact Ho|]. split.
    - unfold file_of. rewrite len_app, len_dir_of, len_flat_tb.
      pose proof (total_padded_mod4 (ordered_entries m)). lia.
    - cbn [fr_records]. intros r Hr.
      assert (Hk : In (r_tag r) (keys m)) by (rewrite <- sorted_tags_eq; apply in_map; exact Hr).
      apply lookup_in_keys in Hk. destruct Hk as [d Hl]. exists d.
      destruct (entry_located _ d Hl) as (a & b & Hab & Hin & Hfile & Hlen).
      (* r is that record: tags are unique in the sorted list *)
      assert (Hr_eq : r = (r_tag r, compute_checksum (zero_head (r_tag r) d), 12 + 16 * len m + total_padded a, len d)).
      { pose proof sorted_tags_sorted as Hs.
        destruct (In_nth_error _ _ Hr) as [i Hi]. destruct (In_nth_error _ _ Hin) as [j Hj].
        assert (Hti : nth_error (map r_tag (sort_records (recs_of m))) i = Some (r_tag r)) by (apply map_nth_error; exact Hi).
        assert (Htj : nth_error (map r_tag (sort_records (recs_of m))) j = Some (r_tag r)) by (apply (map_nth_error r_tag) in Hj; exact Hj).
        pose proof (binary_search_found _ _ _ Hs Hti) as B1. pose proof (binary_search_found _ _ _ Hs Htj) as B2.
        rewrite B1 in B2. assert (E : j = i) by (inversion B2; lia). rewrite E in Hj. pose proof (eq_trans (eq_sym Hi) Hj) as Hj2. injection Hj2. intros Hj'. exact Hj'. }
      exists (dir_of m ++ flat_map (table_bytes (adj_of m)) a), (flat_map (table_bytes (adj_of m)) b).
      pose proof (len_nonneg' m). pose proof (total_padded_nonneg a). pose proof (total_padded_mod4 a).
      pose proof (f_equal r_cksum Hr_eq) as Hck. pose proof (f_equal r_offset Hr_eq) as Hof.
      pose proof (f_equal r_length Hr_eq) as Hle. cbn [r_cksum r_offset r_length] in Hck, Hof, Hle.
      rewrite Hck, Hof, Hle.
      repeat split; try assumption; try lia.
  Qed.
End Built.
