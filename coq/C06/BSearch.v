(* C06 — correctness of the model of core::slice::binary_search_by (Model.bs_loop / binary_search). *)
From Coq Require Import ZArith Lia List Bool Sorted.
From FV Require Import Lib.RustInt C06.Model.
Import ListNotations.
Open Scope Z_scope.
Ltac Zify.zify_post_hook ::= Z.div_mod_to_equations.

(* strictly ascending list: index-wise characterisation *)
Lemma sorted_nth_lt : forall tags, StronglySorted Z.lt tags ->
  forall i j, (i < j < length tags)%nat -> nth i tags 0 < nth j tags 0.
Proof.
  induction 1 as [|a l Hs IH Hall]; intros i j Hij; simpl in *.
  - lia.
  - destruct j as [|j]; [lia|].
    destruct i as [|i].
    + rewrite Forall_forall in Hall. apply Hall. apply nth_In. lia.
    + apply IH. lia.
Qed.

(* index-wise monotonicity, both directions, for in-range indices *)
Lemma sorted_nth_lt_inv : forall tags, StronglySorted Z.lt tags ->
  forall i j, (i < length tags)%nat -> (j < length tags)%nat ->
  nth i tags 0 < nth j tags 0 -> (i < j)%nat.
Proof.
  intros tags Hs i j Hi Hj Hlt.
  destruct (Nat.lt_trichotomy i j) as [H|[H|H]]; auto.
  - subst. lia.
  - assert (nth j tags 0 < nth i tags 0) by (apply sorted_nth_lt; auto; lia). lia.
Qed.

Lemma bs_loop_bounds : forall fuel tags t base size,
  0 <= base -> 1 <= size -> base + size <= len tags ->
  0 <= bs_loop fuel tags t base size < len tags.
Proof.
  induction fuel as [|f IH]; intros tags t base size Hb Hs Hle; simpl.
  - lia.
  - destruct (1 <? size) eqn:E.
    + apply Z.ltb_lt in E.
      destruct (t <? nth (Z.to_nat (base + size / 2)) tags 0); apply IH; lia.
    + lia.
Qed.

Lemma bs_loop_found : forall fuel tags t i base size,
  StronglySorted Z.lt tags ->
  (i < length tags)%nat -> nth i tags 0 = t ->
  0 <= base -> 1 <= size -> base + size <= len tags ->
  base <= Z.of_nat i < base + size ->
  size <= Z.of_nat fuel ->
  bs_loop fuel tags t base size = Z.of_nat i.
Proof.
  induction fuel as [|f IH]; intros tags t i base size Hs Hi Ht Hb Hsz Hle Hin Hfuel.
  - lia.
  - simpl. destruct (1 <? size) eqn:E.
    + apply Z.ltb_lt in E.
      assert (Hmid : (Z.to_nat (base + size / 2) < length tags)%nat)
        by (unfold len in Hle; lia).
      destruct (t <? nth (Z.to_nat (base + size / 2)) tags 0) eqn:C.
      * apply Z.ltb_lt in C. rewrite <- Ht in C.
        apply sorted_nth_lt_inv in C; auto.
        apply IH; auto; lia.
      * apply Z.ltb_ge in C. rewrite <- Ht in C.
        assert (~ (i < Z.to_nat (base + size / 2))%nat).
        { intro Hlt.
          assert (nth i tags 0 < nth (Z.to_nat (base + size / 2)) tags 0)
            by (apply sorted_nth_lt; auto; lia).
          lia. }
        apply IH; auto; lia.
    + apply Z.ltb_ge in E. lia.
Qed.

(* found: *)
Lemma binary_search_found : forall tags t i, StronglySorted Z.lt tags ->
  nth_error tags i = Some t -> binary_search tags t = Some (Z.of_nat i).
Proof.
  intros tags t i Hs Hn.
  assert (Hi : (i < length tags)%nat) by (apply nth_error_Some; congruence).
  assert (Ht : nth i tags 0 = t) by (apply nth_error_nth; auto).
  unfold binary_search.
  destruct (len tags =? 0) eqn:E.
  - apply Z.eqb_eq in E. unfold len in E. lia.
  - cbv zeta.
    rewrite (bs_loop_found (length tags) tags t i 0 (len tags)); auto;
      try (unfold len; lia).
    rewrite Nat2Z.id, Ht, Z.eqb_refl. reflexivity.
Qed.

(* absent (no sortedness needed): *)
Lemma binary_search_absent : forall tags t, ~ In t tags -> binary_search tags t = None.
Proof.
  intros tags t Hni. unfold binary_search.
  destruct (len tags =? 0) eqn:E; auto.
  apply Z.eqb_neq in E. cbv zeta.
  assert (Hb : 0 <= bs_loop (length tags) tags t 0 (len tags) < len tags)
    by (apply bs_loop_bounds; unfold len in *; lia).
  destruct (nth (Z.to_nat (bs_loop (length tags) tags t 0 (len tags))) tags 0 =? t) eqn:C; auto.
  apply Z.eqb_eq in C. exfalso. apply Hni. rewrite <- C.
  apply nth_In. unfold len in *. lia.
Qed.

(* whatever it returns is a valid index holding t: *)
Lemma binary_search_sound : forall tags t i, binary_search tags t = Some i ->
  0 <= i < len tags /\ nth_error tags (Z.to_nat i) = Some t.
Proof.
  intros tags t i. unfold binary_search.
  destruct (len tags =? 0) eqn:E; [discriminate|].
  apply Z.eqb_neq in E. cbv zeta.
  assert (Hb : 0 <= bs_loop (length tags) tags t 0 (len tags) < len tags)
    by (apply bs_loop_bounds; unfold len in *; lia).
  destruct (nth (Z.to_nat (bs_loop (length tags) tags t 0 (len tags))) tags 0 =? t) eqn:C;
    [|discriminate].
  intro H. inversion H; subst i. clear H. split; auto.
  apply Z.eqb_eq in C.
  remember (bs_loop (length tags) tags t 0 (len tags)) as b.
  rewrite <- C.
  apply nth_error_nth'. unfold len in *. lia.
Qed.
