(* C06 — algebra of the sfnt table checksum: compute_checksum as a wrapped sum of big-endian
   words (wsum), additivity over 4-aligned prefixes, zero padding, round4 / padding_of facts. *)
From Coq Require Import ZArith Lia List Bool.
From FV Require Import Lib.RustInt C06.Model.
Import ListNotations.
Open Scope Z_scope.
Ltac Zify.zify_post_hook ::= Z.div_mod_to_equations.

Fixpoint wsum (l : list Z) : Z :=
  match l with
  | a :: b :: c :: d :: r => from_be [a; b; c; d] + wsum r
  | [a; b; c] => from_be [a; b; c; 0]
  | [a; b] => from_be [a; b; 0; 0]
  | [a] => from_be [a; 0; 0; 0]
  | [] => 0
  end.
Definition aligned (l : list Z) : Prop := exists n, length l = (4 * n)%nat.

Lemma list_ind4 : forall P : list Z -> Prop,
  P [] -> (forall a, P [a]) -> (forall a b, P [a;b]) -> (forall a b c, P [a;b;c]) ->
  (forall a b c d r, P r -> P (a::b::c::d::r)) -> forall l, P l.
Proof.
  intros P H0 H1 H2 H3 H4.
  assert (H : forall n l, (length l <= n)%nat -> P l).
  { induction n as [|n IH]; intros l Hl.
    - destruct l; [apply H0 | cbn in Hl; lia].
    - destruct l as [|a [|b [|c [|d r]]]]; auto.
      apply H4. apply IH. cbn [length] in Hl. lia. }
  intros l. apply (H (length l)). lia.
Qed.

Lemma cksum_acc_wsum : forall l s, cksum_acc s l = wrap_u 32 (s + wsum l).
Proof.
  induction l as [| a | a b | a b c | a b c d r IH] using list_ind4; intros s;
    cbn [cksum_acc wsum]; try reflexivity.
  rewrite IH. unfold wrap_u. rewrite Zplus_mod_idemp_l. f_equal. lia.
Qed.

Lemma compute_checksum_wsum : forall l, compute_checksum l = wrap_u 32 (wsum l).
Proof. intros l. unfold compute_checksum. rewrite cksum_acc_wsum. reflexivity. Qed.

Lemma compute_checksum_range : forall l, 0 <= compute_checksum l < 4294967296.
Proof.
  intros l. rewrite compute_checksum_wsum.
  change 4294967296 with (2 ^ 32). apply wrap_u_range. lia.
Qed.

Lemma aligned_tail4 : forall a b c d r, aligned (a :: b :: c :: d :: r) -> aligned r.
Proof.
  intros a b c d r [n H]. cbn [length] in H.
  destruct n as [|n]; [lia|]. exists n. lia.
Qed.

Lemma aligned_cons4 : forall a b c d r, aligned r -> aligned (a :: b :: c :: d :: r).
Proof. intros a b c d r [n H]. exists (S n). cbn [length]. lia. Qed.

Lemma wsum_app : forall l1 l2, aligned l1 -> wsum (l1 ++ l2) = wsum l1 + wsum l2.
Proof.
  induction l1 as [| a | a b | a b c | a b c d r IH] using list_ind4; intros l2 Hal.
  - reflexivity.
  - destruct Hal as [n H]; cbn [length] in H; lia.
  - destruct Hal as [n H]; cbn [length] in H; lia.
  - destruct Hal as [n H]; cbn [length] in H; lia.
  - cbn [app wsum]. rewrite IH by (eapply aligned_tail4; eassumption). lia.
Qed.

Lemma aligned_app : forall l1 l2, aligned l1 -> aligned l2 -> aligned (l1 ++ l2).
Proof.
  intros l1 l2 [n1 H1] [n2 H2]. exists (n1 + n2)%nat. rewrite app_length. lia.
Qed.

Lemma aligned_nil : aligned [].
Proof. exists 0%nat. reflexivity. Qed.

Lemma aligned_len : forall l, aligned l <-> (len l) mod 4 = 0.
Proof.
  intros l. unfold aligned, len. split.
  - intros [n H]. rewrite H. lia.
  - intros H. exists (Z.to_nat (Z.of_nat (length l) / 4)). lia.
Qed.

Lemma from_be_0000 : from_be [0; 0; 0; 0] = 0.
Proof. reflexivity. Qed.

Lemma wsum_repeat0 : forall k, wsum (repeat 0 k) = 0.
Proof.
  assert (H : forall n k, (k <= n)%nat -> wsum (repeat 0 k) = 0).
  { induction n as [|n IH]; intros k Hk.
    - destruct k; [reflexivity | lia].
    - destruct k as [|[|[|[|k]]]]; try reflexivity.
      cbn [repeat wsum]. rewrite from_be_0000, IH by lia. reflexivity. }
  intros k. apply (H k). lia.
Qed.

Lemma round4_spec : forall n, 0 <= n -> round4 n = (n + 3) / 4 * 4.
Proof.
  intros n Hn. unfold round4.
  replace (Z.lnot 3) with (Z.lnot (Z.ones 2)) by reflexivity.
  rewrite <- Z.ldiff_land, Z.ldiff_ones_r by lia.
  rewrite Z.shiftr_div_pow2, Z.shiftl_mul_pow2 by lia.
  change (2 ^ 2) with 4. reflexivity.
Qed.

Lemma len_nonneg : forall (l : list Z), 0 <= len l.
Proof. intros l. unfold len. lia. Qed.

Lemma padding_of_range : forall l, 0 <= padding_of l < 4.
Proof.
  intros l. unfold padding_of. rewrite round4_spec by apply len_nonneg.
  pose proof (len_nonneg l). lia.
Qed.

Lemma padding_of_len : forall l, len l + padding_of l = round4 (len l).
Proof. intros l. unfold padding_of. lia. Qed.

Lemma padding_of_aligned : forall l, aligned (l ++ repeat 0 (Z.to_nat (padding_of l))).
Proof.
  intros l. apply aligned_len.
  pose proof (padding_of_range l) as Hr.
  pose proof (padding_of_len l) as Hl.
  rewrite round4_spec in Hl by apply len_nonneg.
  unfold len in *. rewrite app_length, repeat_length.
  rewrite Nat2Z.inj_add, Z2Nat.id by lia. rewrite Hl. lia.
Qed.

Lemma padding_of_cons4 : forall a b c d r, padding_of (a :: b :: c :: d :: r) = padding_of r.
Proof.
  intros a b c d r. unfold padding_of.
  assert (E : len (a :: b :: c :: d :: r) = len r + 4).
  { unfold len. cbn [length]. lia. }
  rewrite E. pose proof (len_nonneg r).
  rewrite !round4_spec by lia. lia.
Qed.

Lemma wsum_pad : forall l, wsum (l ++ repeat 0 (Z.to_nat (padding_of l))) = wsum l.
Proof.
  induction l as [| a | a b | a b c | a b c d r IH] using list_ind4.
  - reflexivity.
  - replace (padding_of [a]) with 3 by reflexivity.
    change (Z.to_nat 3) with 3%nat. cbn [repeat app wsum]. lia.
  - replace (padding_of [a; b]) with 2 by reflexivity.
    change (Z.to_nat 2) with 2%nat. cbn [repeat app wsum]. lia.
  - replace (padding_of [a; b; c]) with 1 by reflexivity.
    change (Z.to_nat 1) with 1%nat. cbn [repeat app wsum]. lia.
  - rewrite padding_of_cons4. cbn [app wsum]. rewrite IH. reflexivity.
Qed.

Lemma wsum_splice : forall a q b, length a = 8%nat -> length q = 4%nat ->
  wsum (a ++ q ++ b) = wsum a + from_be q + wsum b.
Proof.
  intros a q b Ha Hq.
  destruct a as [|a0 [|a1 [|a2 [|a3 [|a4 [|a5 [|a6 [|a7 [|a8 a]]]]]]]]]; try discriminate Ha.
  destruct q as [|q0 [|q1 [|q2 [|q3 [|q4 q]]]]]; try discriminate Hq.
  cbn [app wsum]. lia.
Qed.

Lemma checksum_app : forall l1 l2, aligned l1 ->
  compute_checksum (l1 ++ l2) = wrap_u 32 (compute_checksum l1 + compute_checksum l2).
Proof.
  intros l1 l2 Hal. rewrite !compute_checksum_wsum, wsum_app by assumption.
  unfold wrap_u. rewrite <- Zplus_mod. reflexivity.
Qed.

Lemma checksum_zero_pad : forall l,
  compute_checksum (l ++ repeat 0 (Z.to_nat (padding_of l))) = compute_checksum l.
Proof. intros l. rewrite !compute_checksum_wsum, wsum_pad. reflexivity. Qed.

Lemma wsum_flat_map_aligned : forall (A : Type) (f : A -> list Z) (xs : list A),
  (forall x, In x xs -> aligned (f x)) ->
  wsum (flat_map f xs) = fold_right (fun x acc => wsum (f x) + acc) 0 xs /\ aligned (flat_map f xs).
Proof.
  intros A f xs. induction xs as [|x xs IH]; intros H.
  - split; [reflexivity | apply aligned_nil].
  - destruct IH as [IH1 IH2]; [intros y Hy; apply H; right; exact Hy|].
    assert (Hx : aligned (f x)) by (apply H; left; reflexivity).
    cbn [flat_map fold_right]. split.
    + rewrite wsum_app by assumption. rewrite IH1. reflexivity.
    + apply aligned_app; assumption.
Qed.
