(* C06 — non-vacuity examples *)
From Coq Require Import ZArith List.
From FV Require Import Lib.RustInt C06.Model C06.Proofs.
Import ListNotations.
Open Scope Z_scope.
