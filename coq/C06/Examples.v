(* C06 — non-vacuity examples for the hypotheses of Props.v *)
From Coq Require Import ZArith Lia List Sorted Permutation.
From FV Require Import Lib.RustInt C06.Model C06.Checksum C06.MapLemmas C06.Proofs C06.Reader C06.FileSum C06.Final.
Import ListNotations.
Open Scope Z_scope.

(* a three-table font: a 13-byte head (adjustment written), 'CFF ' (3 bytes), DSIG (1 byte) *)
Definition ex_ops : list (Z * list Z) :=
  [(TAG_DSIG, [9]); (TAG_head, [0;1;2;3;4;5;6;7;8;9;10;11;12]); (TAG_CFF, [1;2;3])].
Definition ex_m : builder := Eval vm_compute in add_all ex_ops [].

Example c06_pre_nonvacuous : pre ex_m.
Proof.
  unfold pre. split; [|split; [|split]].
  - unfold wf. vm_compute. repeat constructor.
  - unfold ex_m, keys. cbn [map fst]. unfold u32, TAG_CFF, TAG_DSIG, TAG_head. repeat constructor; lia.
  - vm_compute. discriminate.
  - vm_compute. reflexivity.
Qed.

Example c06_head_hypotheses_nonvacuous :
  lookup TAG_head ex_m = Some [0;1;2;3;4;5;6;7;8;9;10;11;12] /\ 12 <= len [0;1;2;3;4;5;6;7;8;9;10;11;12]
  /\ is_long_head TAG_head [0;1;2;3;4;5;6;7;8;9;10;11;12] = true.
Proof. split; [reflexivity|]. split; [vm_compute; discriminate | reflexivity]. Qed.

(* the concrete file: opens, whole-file checksum 0xB1B0AFBA, tables come back, CFF order puts head first, DSIG last *)
Example c06_concrete_build :
  match build ex_m with
  | Some file =>
      compute_checksum file = 2981146554 /\ len file = 12 + 3 * 16 + 16 + 4 + 4 /\
      match font_ref_new file with
      | Some f => map r_tag (fr_records f) = [TAG_CFF; TAG_DSIG; TAG_head] /\
                  table_data f TAG_CFF = Some [1;2;3] /\ table_data f TAG_DSIG = Some [9] /\
                  table_data f 0 = None /\
                  map r_offset (fr_records f) = [76; 80; 60]
      | None => False
      end
  | None => False
  end.
Proof. vm_compute. repeat split; reflexivity. Qed.

(* two different insertion sequences (one with an overwritten first attempt) denoting the same map *)
Example c06_order_hypothesis_nonvacuous :
  let ops2 := [(TAG_CFF, [7;7]); (TAG_head, [0;1;2;3;4;5;6;7;8;9;10;11;12]); (TAG_CFF, [1;2;3]); (TAG_DSIG, [9])] in
  ops2 <> ex_ops /\ (forall t, lookup t (add_all ex_ops []) = lookup t (add_all ops2 [])).
Proof. split; [discriminate|]. intros t. reflexivity. Qed.

Definition TAG_name : Z := Eval vm_compute in from_be [110; 97; 109; 101].   (* 'name' *)
(* copy_missing_tables from a built font with an overlapping tag: the supplied CFF stays, 'name' is copied *)
Definition ex_src_bytes : list Z := Eval vm_compute in
  match build (add_all [(TAG_CFF, [5;5;5;5;5]); (TAG_name, [4;4])] []) with Some b => b | None => [] end.
Definition ex_copied : builder := Eval vm_compute in
  match font_ref_new ex_src_bytes with Some src => copy_missing_tables ex_m src | None => [] end.
Example c06_copy_hypotheses_nonvacuous : exists src,
  font_ref_new ex_src_bytes = Some src /\
  lookup TAG_CFF ex_m = Some [1;2;3] /\ table_data src TAG_CFF = Some [5;5;5;5;5] /\
  lookup TAG_CFF (copy_missing_tables ex_m src) = Some [1;2;3] /\
  lookup TAG_name (copy_missing_tables ex_m src) = Some [4;4] /\
  copy_missing_tables ex_m src = ex_copied.
Proof. eexists. split; [vm_compute; reflexivity|]. vm_compute. repeat split. Qed.
Example c06_copy_pre_nonvacuous : pre ex_copied.
Proof.
  unfold pre. split; [|split; [|split]].
  - unfold wf. vm_compute. repeat constructor.
  - unfold ex_copied, keys. cbn [map fst]. unfold u32. repeat constructor; lia.
  - vm_compute. discriminate.
  - vm_compute. reflexivity.
Qed.

(* 4096 tables: outside [pre]; the model build panics like the real one *)
Example c06_sharp_nonvacuous : 4096 <= len (map (fun i => (Z.of_nat i, @nil Z)) (seq 0 4096)).
Proof. vm_compute. discriminate. Qed.

(* a failed add_table for a fresh tag followed by a copy from a font that has that tag: hypotheses of
   c06_failed_add_table_does_not_mask_copy are satisfiable, and the conclusion computes *)
Example c06_failed_add_table_hypotheses_nonvacuous : exists src,
  font_ref_new ex_src_bytes = Some src /\ lookup TAG_name ex_m = None /\
  In TAG_name (map r_tag (fr_records src)) /\ table_data src TAG_name = Some [4;4] /\
  contains (add_table ex_m TAG_name None) TAG_name = false /\
  lookup TAG_name (copy_missing_tables (add_table ex_m TAG_name None) src) = Some [4;4].
Proof.
  eexists. split; [vm_compute; reflexivity|]. vm_compute. repeat split. right. left. reflexivity.
Qed.

(* builder reuse: the hypotheses of c06_apply_ops_reuse hold for the three-table font above, and a second
   font built from the same builder value lists only its own table *)
Example c06_reuse_hypotheses_nonvacuous : exists file,
  fold_left apply_op (map (fun o => (0, fst o, snd o)) ex_ops) (Some []) = Some ex_m /\
  build ex_m = Some file /\
  after_build ((TAG_name, []) :: ex_m) = [] /\
  match fold_left apply_op (map (fun o => (0, fst o, snd o)) ex_ops ++ [(6, 0, file); (0, TAG_name, [1])]) (Some []) with
  | Some m => m = [(TAG_name, [1])]
  | None => False
  end.
Proof. eexists. split; [vm_compute; reflexivity|]. split; [vm_compute; reflexivity|]. vm_compute. split; reflexivity. Qed.
