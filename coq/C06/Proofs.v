(* C06 — main lemmas: characterisation of [build], the reader on a built file, checksums.
   Checksum.v / BSearch.v / MapLemmas.v hold the supporting theories. *)
From Coq Require Import ZArith Lia List Bool Sorted Permutation.
From FV Require Import Lib.RustInt C06.Model C06.Checksum C06.BSearch C06.MapLemmas.
Import ListNotations.
Open Scope Z_scope.
Ltac Zify.zify_post_hook ::= Z.div_mod_to_equations.

Definition M32 : Z := 4294967296.
Definition u32 (z : Z) : Prop := 0 <= z < 4294967296.

(* ---------- small list facts ---------- *)
Lemma len_app {A} (a b : list A) : len (a ++ b) = len a + len b.
Proof. unfold len. rewrite app_length. lia. Qed.
Lemma len_nonneg' {A} (l : list A) : 0 <= len l.
Proof. unfold len. lia. Qed.
Lemma len_cons {A} (x : A) l : len (x :: l) = 1 + len l.
Proof. unfold len. cbn [length]. lia. Qed.
Lemma len_perm {A} (a b : list A) : Permutation a b -> len a = len b.
Proof. intros H. unfold len. rewrite (Permutation_length H). reflexivity. Qed.
Lemma skipn_app_exact {A} (a b : list A) k : length a = k -> skipn k (a ++ b) = b.
Proof. intros <-. rewrite skipn_app, skipn_all, Nat.sub_diag. reflexivity. Qed.
Lemma firstn_app_exact {A} (a b : list A) k : length a = k -> firstn k (a ++ b) = a.
Proof. intros <-. rewrite firstn_app, firstn_all, Nat.sub_diag. cbn. apply app_nil_r. Qed.
Lemma to_be_len n z : len (to_be n z) = Z.of_nat n.
Proof. unfold len. rewrite to_be_length. reflexivity. Qed.

(* ---------- zero_head / splice_head ---------- *)
Lemma long_head_split (d : list Z) : 12 <= len d ->
  length (firstn 8 d) = 8%nat /\ len (skipn 12 d) = len d - 12.
Proof.
  unfold len. intros H. split.
  - rewrite firstn_length. lia.
  - rewrite skipn_length. lia.
Qed.
Lemma zero_head_len t d : len (zero_head t d) = len d.
Proof.
  unfold zero_head, is_long_head. destruct (t =? TAG_head); cbn [andb]; [|reflexivity].
  destruct (12 <=? len d) eqn:E; [|reflexivity].
  apply Z.leb_le in E. destruct (long_head_split d E) as [H1 H2].
  rewrite !len_app, H2. unfold len at 1. rewrite H1. unfold len. cbn [length]. lia.
Qed.
Lemma splice_head_len t d adj : len (splice_head t d adj) = len d.
Proof.
  unfold splice_head, is_long_head. destruct (t =? TAG_head); cbn [andb]; [|reflexivity].
  destruct (12 <=? len d) eqn:E; [|reflexivity].
  apply Z.leb_le in E. destruct (long_head_split d E) as [H1 H2].
  rewrite !len_app, H2, to_be_len. unfold len at 1. rewrite H1. lia.
Qed.
Lemma is_long_head_zero t d : is_long_head t (zero_head t d) = is_long_head t d.
Proof. unfold is_long_head. rewrite zero_head_len. reflexivity. Qed.
Lemma padding_of_eq_len (a b : list Z) : len a = len b -> padding_of a = padding_of b.
Proof. unfold padding_of. intros ->. reflexivity. Qed.

(* firstn 8 / skipn 12 of the zeroed head are those of the original *)
Lemma zero_head_parts (d : list Z) : 12 <= len d ->
  firstn 8 (firstn 8 d ++ [0;0;0;0] ++ skipn 12 d) = firstn 8 d /\
  skipn 12 (firstn 8 d ++ [0;0;0;0] ++ skipn 12 d) = skipn 12 d.
Proof.
  intros H. destruct (long_head_split d H) as [H1 _]. split.
  - apply firstn_app_exact. exact H1.
  - replace (firstn 8 d ++ [0;0;0;0] ++ skipn 12 d) with ((firstn 8 d ++ [0;0;0;0]) ++ skipn 12 d)
      by (rewrite <- app_assoc; reflexivity).
    apply skipn_app_exact. rewrite app_length, H1. reflexivity.
Qed.

(* ---------- the first loop as a pure function ---------- *)
Fixpoint records_at (pos : Z) (tabs : list (Z * list Z)) : list record :=
  match tabs with
  | [] => []
  | (t, d) :: r => (t, compute_checksum (zero_head t d), pos, len d) :: records_at (pos + round4 (len d)) r
  end.
Definition total_padded (tabs : list (Z * list Z)) : Z :=
  fold_right (fun e acc => round4 (len (snd e)) + acc) 0 tabs.

Lemma round4_ge n : 0 <= n -> n <= round4 n < n + 4.
Proof.
  intros H. rewrite round4_spec by lia.
  pose proof (Z.div_mod (n + 3) 4 ltac:(lia)). pose proof (Z.mod_pos_bound (n + 3) 4 ltac:(lia)). lia.
Qed.
Lemma total_padded_cons e r : total_padded (e :: r) = round4 (len (snd e)) + total_padded r.
Proof. reflexivity. Qed.
Lemma total_padded_nonneg tabs : 0 <= total_padded tabs.
Proof.
  induction tabs as [|[t d] r IH]; [cbn; lia|]. rewrite total_padded_cons. cbn [snd].
  pose proof (round4_ge (len d) (len_nonneg' d)). pose proof (len_nonneg' d). lia.
Qed.
Lemma total_padded_app a b : total_padded (a ++ b) = total_padded a + total_padded b.
Proof.
  induction a as [|e a IH]; [reflexivity|].
  rewrite <- app_comm_cons, !total_padded_cons, IH. lia.
Qed.
Lemma total_padded_perm a b : Permutation a b -> total_padded a = total_padded b.
Proof.
  induction 1; rewrite ?total_padded_cons; lia.
Qed.

Lemma layout_ok tabs : forall pos, 0 <= pos -> pos + total_padded tabs < M32 ->
  layout pos tabs = Some (records_at pos tabs).
Proof.
  unfold M32. induction tabs as [|[t d] r IH]; intros pos Hp Hb; [reflexivity|].
  cbn [layout records_at]. rewrite total_padded_cons in Hb. cbn [snd] in Hb.
  pose proof (total_padded_nonneg r) as Hr. pose proof (round4_ge (len d) (len_nonneg' d)) as H4.
  pose proof (len_nonneg' d) as Hd.
  rewrite (wrap_u_id 32 (len d)) by (change (2 ^ 32) with 4294967296; lia).
  unfold chk_u at 1. unfold in_u. change (2 ^ 32) with 4294967296.
  replace ((0 <=? pos + len d) && (pos + len d <? 4294967296)) with true by lia.
  cbn [obind].
  rewrite (padding_of_eq_len (zero_head t d) d) by apply zero_head_len.
  assert (Hpad : pos + len d + padding_of d = pos + round4 (len d)) by (pose proof (padding_of_len d); lia).
  rewrite Hpad. unfold chk_u, in_u. change (2 ^ 32) with 4294967296.
  replace ((0 <=? pos + round4 (len d)) && (pos + round4 (len d) <? 4294967296)) with true by lia.
  cbn [obind]. rewrite IH by lia. reflexivity.
Qed.

Lemma records_at_tags pos tabs : map r_tag (records_at pos tabs) = map fst tabs.
Proof. revert pos. induction tabs as [|[t d] r IH]; intros pos; cbn; [reflexivity|]. rewrite IH. reflexivity. Qed.
Lemma records_at_length pos tabs : length (records_at pos tabs) = length tabs.
Proof. revert pos. induction tabs as [|[t d] r IH]; intros pos; cbn; [reflexivity|]. rewrite IH. reflexivity. Qed.
Lemma records_at_app pos a b :
  records_at pos (a ++ b) = records_at pos a ++ records_at (pos + total_padded a) b.
Proof.
  revert pos. induction a as [|[t d] a IH]; intros pos.
  - cbn [app records_at]. f_equal. cbn. lia.
  - rewrite <- app_comm_cons. cbn [records_at]. rewrite total_padded_cons. cbn [snd].
    rewrite IH. cbn [app]. f_equal. f_equal. f_equal. lia.
Qed.

(* ---------- SearchRange ---------- *)
Definition sr_of (n : Z) : Z * Z * Z :=
  if n =? 0 then (16, 0, 0) else (2 ^ Z.log2 n * 16, Z.log2 n, n * 16 - 2 ^ Z.log2 n * 16).
Lemma search_range_ok n : 0 <= n <= 4095 -> search_range n 16 = Some (sr_of n).
Proof.
  intros H. unfold search_range, sr_of. destruct (n =? 0) eqn:E.
  - apply Z.eqb_eq in E. subst. reflexivity.
  - apply Z.eqb_neq in E.
    assert (Hn : 0 < n) by lia.
    pose proof (Z.log2_spec n Hn) as [Hlo Hhi]. pose proof (Z.log2_nonneg n) as Hl.
    assert (Hl11 : Z.log2 n <= 11).
    { destruct (Z_le_gt_dec (Z.log2 n) 11) as [|G]; [assumption|].
      assert (2 ^ 12 <= 2 ^ Z.log2 n) by (apply Z.pow_le_mono_r; lia).
      change (2 ^ 12) with 4096 in *. lia. }
    set (p := 2 ^ Z.log2 n) in *.
    assert (Hmax : Z.max 0 (n * 16 - p * 16) = n * 16 - p * 16) by lia.
    rewrite Hmax. unfold chk_u, in_u. change (2 ^ 16) with 65536.
    replace ((0 <=? p * 16) && (p * 16 <? 65536)) with true by lia. cbn [obind].
    replace ((0 <=? Z.log2 n) && (Z.log2 n <? 65536)) with true by lia. cbn [obind].
    replace ((0 <=? n * 16 - p * 16) && (n * 16 - p * 16 <? 65536)) with true by lia. cbn [obind].
    reflexivity.
Qed.
Lemma search_range_4096 : search_range 4096 16 = None.
Proof. reflexivity. Qed.
Lemma sr_of_u16 n : 0 <= n <= 4095 ->
  let '(a, b, c) := sr_of n in 0 <= a < 65536 /\ 0 <= b < 65536 /\ 0 <= c < 65536.
Proof.
  intros H. unfold sr_of. destruct (n =? 0) eqn:E; [lia|]. apply Z.eqb_neq in E.
  assert (Hn : 0 < n) by lia.
  pose proof (Z.log2_spec n Hn) as [Hlo Hhi]. pose proof (Z.log2_nonneg n) as Hl.
  assert (Hl11 : Z.log2 n <= 11).
  { destruct (Z_le_gt_dec (Z.log2 n) 11) as [|G]; [assumption|].
    assert (2 ^ 12 <= 2 ^ Z.log2 n) by (apply Z.pow_le_mono_r; lia).
    change (2 ^ 12) with 4096 in *. lia. }
  lia.
Qed.

(* ---------- the built file as a pure function, and [build] under its preconditions ---------- *)
Definition pre (m : builder) : Prop :=
  wf m /\ Forall u32 (keys m) /\ len m <= 4095 /\ 12 + 16 * len m + total_padded m < M32.

Definition recs_of (m : builder) : list record := records_at (12 + 16 * len m) (ordered_entries m).
Definition dir_of (m : builder) : list Z :=
  let '(sr, es, rs) := sr_of (len m) in directory_bytes sr es rs (sort_records (recs_of m)).
Definition total_of (m : builder) : Z :=
  fold_left (fun a b => wrap_u 32 (a + b)) (map r_cksum (recs_of m) ++ [compute_checksum (dir_of m)]) 0.
Definition adj_of (m : builder) : Z := wrap_u 32 (2981146554 - total_of m).
Definition file_of (m : builder) : list Z :=
  dir_of m ++ flat_map (table_bytes (adj_of m)) (ordered_entries m).

Lemma len_ordered m : len (ordered_entries m) = len m.
Proof. symmetry. apply len_perm, ordered_entries_perm. Qed.
Lemma len_recs_of m : len (recs_of m) = len m.
Proof. unfold recs_of, len. rewrite records_at_length. apply len_ordered. Qed.
Lemma len_sorted_recs m : len (sort_records (recs_of m)) = len m.
Proof. rewrite <- (len_perm _ _ (sort_records_perm (recs_of m))). apply len_recs_of. Qed.

Lemma build_eq m : pre m -> build m = Some (file_of m).
Proof.
  intros (Hwf & Htags & Hn & Hsz). unfold build.
  pose proof (len_nonneg' m) as Hn0. pose proof (total_padded_nonneg m) as Ht0. unfold M32 in Hsz.
  replace (4 + 2 * 4 + len m * 16) with (12 + 16 * len m) by lia.
  rewrite (wrap_u_id 32) by (change (2 ^ 32) with 4294967296; lia).
  rewrite layout_ok; [| lia | rewrite <- (total_padded_perm _ _ (ordered_entries_perm m)); exact Hsz].
  cbn [obind]. fold (recs_of m). rewrite len_sorted_recs.
  replace (65535 <? len m) with false by lia.
  rewrite search_range_ok by lia. cbn [obind].
  unfold file_of, adj_of, total_of, dir_of. destruct (sr_of (len m)) as [[sr es] rs]. reflexivity.
Qed.

(* the precondition on the table count is sharp: the model build panics from 4096 tables on *)
Lemma build_too_many m : 4096 <= len m -> build m = None.
Proof.
  intros H. unfold build.
  destruct (layout _ _) as [recs|] eqn:EL; [|reflexivity]. cbn [obind].
  assert (Hlen : len (sort_records recs) = len m).
  { rewrite <- (len_perm _ _ (sort_records_perm recs)).
    assert (length recs = length (ordered_entries m)).
    { clear -EL. revert EL. generalize (wrap_u 32 (4 + 2 * 4 + len m * 16)). generalize (ordered_entries m).
      intros tabs. revert recs. induction tabs as [|[t d] r IH]; intros recs pos E; cbn [layout] in E.
      - inversion E. reflexivity.
      - destruct (chk_u 32 (pos + wrap_u 32 (len d))) as [p1|]; [|discriminate]. cbn [obind] in E.
        destruct (chk_u 32 (p1 + _)) as [p2|]; [|discriminate]. cbn [obind] in E.
        destruct (layout p2 r) as [rs|] eqn:E2; [|discriminate]. cbn [obind] in E. inversion E.
        cbn [length]. f_equal. eapply IH. exact E2. }
    unfold len. rewrite H0. apply len_ordered. }
  rewrite Hlen. destruct (65535 <? len m) eqn:E; [reflexivity|].
  apply Z.ltb_ge in E.
  unfold search_range. replace (len m =? 0) with false by lia.
  assert (12 <= Z.log2 (len m)) by (change 12 with (Z.log2 4096); apply Z.log2_le_mono; lia).
  assert (2 ^ 12 <= 2 ^ Z.log2 (len m)) by (apply Z.pow_le_mono_r; lia).
  change (2 ^ 12) with 4096 in *.
  unfold chk_u at 1. unfold in_u. change (2 ^ 16) with 65536.
  replace ((0 <=? 2 ^ Z.log2 (len m) * 16) && (2 ^ Z.log2 (len m) * 16 <? 65536)) with false by lia.
  reflexivity.
Qed.
