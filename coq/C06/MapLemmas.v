(* C06 — lemmas about the sorted-association-list model of BTreeMap<Tag, bytes> (add_raw / lookup /
   copy_missing_tables) and about the generic insertion sort used by ordered_entries/sort_records. *)
From Coq Require Import ZArith Lia List Bool Sorted Permutation.
From FV Require Import Lib.RustInt C06.Model.
Import ListNotations.
Open Scope Z_scope.

Definition keys (m : builder) : list Z := map fst m.
Definition wf (m : builder) : Prop := StronglySorted Z.lt (keys m).

Lemma wf_nil : wf [].
Proof. constructor. Qed.

Lemma wf_cons_inv : forall k v r, wf ((k, v) :: r) -> wf r /\ Forall (Z.lt k) (keys r).
Proof. intros k v r H. apply StronglySorted_inv in H. exact H. Qed.

Lemma wf_cons : forall k v r, wf r -> Forall (Z.lt k) (keys r) -> wf ((k, v) :: r).
Proof. intros k v r H1 H2. unfold wf; simpl. constructor; assumption. Qed.

Lemma keys_add_raw_in : forall t d m k, In k (keys (add_raw t d m)) <-> k = t \/ In k (keys m).
Proof.
  intros t d m k. induction m as [|[k0 v] r IH]; simpl.
  - intuition congruence.
  - destruct (Z.ltb_spec t k0); simpl.
    + intuition congruence.
    + destruct (Z.eqb_spec t k0); simpl.
      * subst. intuition congruence.
      * unfold keys in IH. rewrite IH. intuition congruence.
Qed.

Lemma add_raw_wf : forall t d m, wf m -> wf (add_raw t d m).
Proof.
  intros t d m. induction m as [|[k0 v] r IH]; intros Hwf; simpl.
  - apply wf_cons; constructor.
  - destruct (wf_cons_inv _ _ _ Hwf) as [Hr Hall].
    destruct (Z.ltb_spec t k0).
    + apply wf_cons; [assumption|]. simpl. constructor; [assumption|].
      eapply Forall_impl; [|exact Hall]. simpl. intros; lia.
    + destruct (Z.eqb_spec t k0).
      * subst. apply wf_cons; assumption.
      * apply wf_cons; [auto|]. apply Forall_forall. intros x Hx.
        apply keys_add_raw_in in Hx. destruct Hx as [->|Hx]; [lia|].
        rewrite Forall_forall in Hall. auto.
Qed.

Lemma lookup_add_raw_same : forall t d m, lookup t (add_raw t d m) = Some d.
Proof.
  intros t d m. induction m as [|[k0 v] r IH]; simpl.
  - rewrite Z.eqb_refl. reflexivity.
  - destruct (Z.ltb_spec t k0); simpl.
    + rewrite Z.eqb_refl. reflexivity.
    + destruct (Z.eqb_spec t k0); simpl.
      * rewrite Z.eqb_refl. reflexivity.
      * destruct (Z.eqb_spec t k0); [contradiction|]. exact IH.
Qed.

Lemma lookup_add_raw_other : forall t d m k, k <> t -> lookup k (add_raw t d m) = lookup k m.
Proof.
  intros t d m k Hne. induction m as [|[k0 v] r IH]; simpl.
  - destruct (Z.eqb_spec k t); [contradiction|reflexivity].
  - destruct (Z.ltb_spec t k0); simpl.
    + destruct (Z.eqb_spec k t); [contradiction|reflexivity].
    + destruct (Z.eqb_spec t k0); simpl.
      * subst. destruct (Z.eqb_spec k k0); [contradiction|reflexivity].
      * rewrite IH. reflexivity.
Qed.

Lemma lookup_in_keys : forall t m, (exists d, lookup t m = Some d) <-> In t (keys m).
Proof.
  intros t m. induction m as [|[k0 v] r IH]; simpl.
  - split; [intros [d H]; discriminate|contradiction].
  - destruct (Z.eqb_spec t k0).
    + subst. split; [auto|]. intros _. eexists; reflexivity.
    + rewrite IH. unfold keys. intuition congruence.
Qed.

Lemma lookup_none_not_in : forall t m, lookup t m = None <-> ~ In t (keys m).
Proof.
  intros t m. rewrite <- lookup_in_keys. split.
  - intros H [d Hd]. congruence.
  - intros H. destruct (lookup t m) eqn:E; [|reflexivity]. exfalso. apply H. eexists; reflexivity.
Qed.

Lemma In_keys : forall t d (m : builder), In (t, d) m -> In t (keys m).
Proof. intros t d m H. unfold keys. change t with (fst (t, d)). apply in_map. exact H. Qed.

Lemma lookup_In : forall t d m, wf m -> (lookup t m = Some d <-> In (t, d) m).
Proof.
  intros t d m. induction m as [|[k0 v] r IH]; intros Hwf; simpl.
  - split; [discriminate|contradiction].
  - destruct (wf_cons_inv _ _ _ Hwf) as [Hr Hall].
    destruct (Z.eqb_spec t k0).
    + subst. split.
      * intros H; inversion H; auto.
      * intros [H|H]; [inversion H; reflexivity|].
        apply In_keys in H. rewrite Forall_forall in Hall. apply Hall in H. lia.
    + rewrite (IH Hr). split; [auto|]. intros [H|H]; [inversion H; congruence|exact H].
Qed.

Lemma wf_NoDup_keys : forall m, wf m -> NoDup (keys m).
Proof.
  intros m. induction m as [|[k0 v] r IH]; intros Hwf; simpl.
  - constructor.
  - destruct (wf_cons_inv _ _ _ Hwf) as [Hr Hall]. constructor; [|auto].
    intros H. rewrite Forall_forall in Hall. apply Hall in H. lia.
Qed.

Lemma lookup_lt_head : forall t k v r, wf ((k, v) :: r) -> t < k -> lookup t ((k, v) :: r) = None.
Proof.
  intros t k v r Hwf Hlt. apply lookup_none_not_in. simpl. intros [H|H]; [lia|].
  destruct (wf_cons_inv _ _ _ Hwf) as [_ Hall]. rewrite Forall_forall in Hall. apply Hall in H. lia.
Qed.

(* extensionality of sorted association lists *)
Lemma wf_ext : forall m1 m2, wf m1 -> wf m2 -> (forall t, lookup t m1 = lookup t m2) -> m1 = m2.
Proof.
  induction m1 as [|[k1 v1] r1 IH]; intros [|[k2 v2] r2] H1 H2 Hext.
  - reflexivity.
  - specialize (Hext k2). simpl in Hext. rewrite Z.eqb_refl in Hext. discriminate.
  - specialize (Hext k1). simpl in Hext. rewrite Z.eqb_refl in Hext. discriminate.
  - destruct (Z.lt_trichotomy k1 k2) as [Hlt|[Heq|Hgt]].
    + specialize (Hext k1). rewrite (lookup_lt_head k1 k2 v2 r2 H2 Hlt) in Hext.
      simpl in Hext. rewrite Z.eqb_refl in Hext. discriminate.
    + subst k2. pose proof (Hext k1) as Hk. simpl in Hk. rewrite Z.eqb_refl in Hk.
      inversion Hk; subst v2. f_equal.
      destruct (wf_cons_inv _ _ _ H1) as [Hr1 Hall1].
      destruct (wf_cons_inv _ _ _ H2) as [Hr2 Hall2].
      apply IH; auto. intros t. destruct (Z.eq_dec t k1) as [->|Hne].
      * transitivity (@None (list Z)); [|symmetry]; apply lookup_none_not_in; intros H.
        -- rewrite Forall_forall in Hall1. apply Hall1 in H. lia.
        -- rewrite Forall_forall in Hall2. apply Hall2 in H. lia.
      * specialize (Hext t). simpl in Hext.
        destruct (Z.eqb_spec t k1); [contradiction|exact Hext].
    + specialize (Hext k2). rewrite (lookup_lt_head k2 k1 v1 r1 H1 Hgt) in Hext.
      simpl in Hext. rewrite Z.eqb_refl in Hext. discriminate.
Qed.

Lemma add_raw_comm : forall t1 d1 t2 d2 m, wf m -> t1 <> t2 ->
  add_raw t1 d1 (add_raw t2 d2 m) = add_raw t2 d2 (add_raw t1 d1 m).
Proof.
  intros t1 d1 t2 d2 m Hwf Hne. apply wf_ext.
  - apply add_raw_wf, add_raw_wf, Hwf.
  - apply add_raw_wf, add_raw_wf, Hwf.
  - intros t. destruct (Z.eq_dec t t1) as [->|H1].
    + rewrite lookup_add_raw_same. rewrite lookup_add_raw_other by assumption.
      rewrite lookup_add_raw_same. reflexivity.
    + rewrite (lookup_add_raw_other t1 d1) by assumption.
      destruct (Z.eq_dec t t2) as [->|H2].
      * rewrite !lookup_add_raw_same. reflexivity.
      * rewrite !lookup_add_raw_other by assumption. reflexivity.
Qed.

(* a sequence of add_raw calls *)
Definition add_all (ops : list (Z * list Z)) (m : builder) : builder :=
  fold_left (fun m o => add_raw (fst o) (snd o) m) ops m.

Lemma add_all_wf : forall ops m, wf m -> wf (add_all ops m).
Proof.
  induction ops as [|o ops IH]; intros m Hwf; simpl.
  - exact Hwf.
  - apply IH. apply add_raw_wf. exact Hwf.
Qed.

Lemma add_all_app : forall ops1 ops2 m, add_all (ops1 ++ ops2) m = add_all ops2 (add_all ops1 m).
Proof. intros. unfold add_all. apply fold_left_app. Qed.

(* last write wins: lookup after a sequence = the last op with that tag, else the old binding *)
Lemma lookup_add_all : forall ops m t,
  lookup t (add_all ops m) =
  match find (fun o => fst o =? t) (rev ops) with Some o => Some (snd o) | None => lookup t m end.
Proof.
  intros ops m t. induction ops as [|o ops IH] using rev_ind.
  - reflexivity.
  - rewrite add_all_app, rev_app_distr. simpl.
    destruct (Z.eqb_spec (fst o) t) as [<-|Hne].
    + apply lookup_add_raw_same.
    + rewrite lookup_add_raw_other by congruence. exact IH.
Qed.

(* insertion-order irrelevance: same final map (as a function) => identical builder state *)
Lemma add_all_order_irrelevant : forall ops1 ops2,
  (forall t, lookup t (add_all ops1 []) = lookup t (add_all ops2 [])) ->
  add_all ops1 [] = add_all ops2 [].
Proof.
  intros ops1 ops2 H. apply wf_ext; [apply add_all_wf, wf_nil | apply add_all_wf, wf_nil | exact H].
Qed.

Lemma add_all_perm_distinct_gen : forall ops1 ops2, Permutation ops1 ops2 -> NoDup (map fst ops1) ->
  forall m, wf m -> add_all ops1 m = add_all ops2 m.
Proof.
  intros ops1 ops2 HP. induction HP; intros Hnd m Hwf.
  - reflexivity.
  - simpl. inversion Hnd; subst. apply IHHP; [assumption|]. apply add_raw_wf, Hwf.
  - simpl. f_equal. apply add_raw_comm; [exact Hwf|].
    simpl in Hnd. inversion Hnd; subst. simpl in *. intros E. apply H1. left. congruence.
  - rewrite IHHP1 by assumption. apply IHHP2; [|assumption].
    eapply Permutation_NoDup; [|exact Hnd]. apply Permutation_map. exact HP1.
Qed.

Lemma add_all_perm_distinct : forall ops1 ops2, Permutation ops1 ops2 -> NoDup (map fst ops1) ->
  add_all ops1 [] = add_all ops2 [].
Proof. intros ops1 ops2 HP Hnd. apply add_all_perm_distinct_gen; auto using wf_nil. Qed.

(* ---- copy_missing_tables ---- *)
Definition cm_step (f : fontref) (m : builder) (rec : record) : builder :=
  let tag := r_tag rec in
  if contains m tag then m
  else match table_data f tag with
       | Some data => add_raw tag data m
       | None => m
       end.

Lemma copy_missing_fold : forall f m, copy_missing_tables m f = fold_left (cm_step f) (fr_records f) m.
Proof. reflexivity. Qed.

Lemma contains_false : forall m t, contains m t = false <-> lookup t m = None.
Proof. intros m t. unfold contains. destruct (lookup t m); split; congruence. Qed.

Lemma cm_step_keeps : forall f m r t d, lookup t m = Some d -> lookup t (cm_step f m r) = Some d.
Proof.
  intros f m r t d H. unfold cm_step.
  destruct (contains m (r_tag r)) eqn:E; [exact H|].
  destruct (table_data f (r_tag r)); [|exact H].
  rewrite lookup_add_raw_other; [exact H|]. intros ->.
  apply contains_false in E. congruence.
Qed.

Lemma cm_step_wf : forall f m r, wf m -> wf (cm_step f m r).
Proof.
  intros f m r H. unfold cm_step. destruct (contains m (r_tag r)); [exact H|].
  destruct (table_data f (r_tag r)); [apply add_raw_wf|]; exact H.
Qed.

Lemma cm_fold_keeps : forall f rs m t d, lookup t m = Some d -> lookup t (fold_left (cm_step f) rs m) = Some d.
Proof.
  intros f rs. induction rs as [|r rs IH]; intros m t d H; simpl; [exact H|].
  apply IH. apply cm_step_keeps. exact H.
Qed.

Lemma cm_fold_wf : forall f rs m, wf m -> wf (fold_left (cm_step f) rs m).
Proof.
  intros f rs. induction rs as [|r rs IH]; intros m H; simpl; [exact H|].
  apply IH. apply cm_step_wf. exact H.
Qed.

Lemma cm_fold_adds : forall f rs m t d, lookup t (fold_left (cm_step f) rs m) = Some d ->
  lookup t m = Some d \/ (lookup t m = None /\ table_data f t = Some d /\ In t (map r_tag rs)).
Proof.
  intros f rs. induction rs as [|r rs IH]; intros m t d H; simpl in *; [left; exact H|].
  apply IH in H. unfold cm_step in H.
  destruct (contains m (r_tag r)) eqn:E.
  { destruct H as [H|(H1 & H2 & H3)]; [left; exact H|right; auto]. }
  apply contains_false in E.
  destruct (table_data f (r_tag r)) as [data|] eqn:TD.
  2:{ destruct H as [H|(H1 & H2 & H3)]; [left; exact H|right; auto]. }
  destruct (Z.eq_dec t (r_tag r)) as [->|Hne].
  - rewrite lookup_add_raw_same in H. destruct H as [H|(H1 & _)]; [|discriminate].
    inversion H; subst. right. auto.
  - rewrite lookup_add_raw_other in H by assumption.
    destruct H as [H|(H1 & H2 & H3)]; [left; exact H|right; auto].
Qed.

Lemma cm_fold_copies : forall f rs m t d, lookup t m = None -> In t (map r_tag rs) ->
  table_data f t = Some d -> lookup t (fold_left (cm_step f) rs m) = Some d.
Proof.
  intros f rs. induction rs as [|r rs IH]; intros m t d Hn Hin TD; simpl in *; [contradiction|].
  destruct (Z.eq_dec (r_tag r) t) as [Heq|Hne].
  - apply cm_fold_keeps. unfold cm_step. rewrite Heq.
    apply contains_false in Hn. rewrite Hn, TD. apply lookup_add_raw_same.
  - destruct Hin as [Hin|Hin]; [contradiction|]. apply IH; auto.
    unfold cm_step. destruct (contains m (r_tag r)); [exact Hn|].
    destruct (table_data f (r_tag r)); [|exact Hn].
    rewrite lookup_add_raw_other by congruence. exact Hn.
Qed.

(* copy_missing_tables never overrides and keeps the invariant *)
Lemma copy_missing_keeps : forall f m t d, lookup t m = Some d -> lookup t (copy_missing_tables m f) = Some d.
Proof. intros. rewrite copy_missing_fold. apply cm_fold_keeps. assumption. Qed.

Lemma copy_missing_wf : forall f m, wf m -> wf (copy_missing_tables m f).
Proof. intros. rewrite copy_missing_fold. apply cm_fold_wf. assumption. Qed.

Lemma copy_missing_adds : forall f m t d, lookup t (copy_missing_tables m f) = Some d ->
  lookup t m = Some d \/ (lookup t m = None /\ table_data f t = Some d /\ In t (map r_tag (fr_records f))).
Proof. intros f m t d H. rewrite copy_missing_fold in H. apply cm_fold_adds in H. exact H. Qed.

(* and a tag missing from m that the source font can supply is copied *)
Lemma copy_missing_copies : forall f m t d, lookup t m = None -> In t (map r_tag (fr_records f)) ->
  table_data f t = Some d -> lookup t (copy_missing_tables m f) = Some d.
Proof. intros. rewrite copy_missing_fold. apply cm_fold_copies; assumption. Qed.

(* ---- generic insertion sort facts ---- *)
Lemma insert_by_perm : forall A (leb : A -> A -> bool) x l, Permutation (x :: l) (insert_by leb x l).
Proof.
  intros A leb x l. induction l as [|y r IH]; simpl.
  - apply Permutation_refl.
  - destruct (leb x y).
    + apply Permutation_refl.
    + eapply perm_trans; [apply perm_swap|]. apply perm_skip. exact IH.
Qed.

Lemma isort_by_perm : forall A (leb : A -> A -> bool) l, Permutation l (isort_by leb l).
Proof.
  intros A leb l. induction l as [|x r IH]; simpl.
  - apply Permutation_refl.
  - eapply perm_trans; [|apply insert_by_perm]. apply perm_skip. exact IH.
Qed.

Lemma insert_by_key_sorted : forall A (key : A -> Z) x (s : list A),
  StronglySorted Z.lt (map key s) -> ~ In (key x) (map key s) ->
  StronglySorted Z.lt (map key (insert_by (fun a b => key a <=? key b) x s)).
Proof.
  intros A key x s. induction s as [|y r IH]; intros Hs Hni; simpl.
  - constructor; constructor.
  - simpl in Hs. apply StronglySorted_inv in Hs. destruct Hs as [Hr Hall].
    simpl in Hni. destruct (Z.leb_spec (key x) (key y)) as [Hle|Hgt]; simpl.
    + assert (key x < key y) by (assert (key y <> key x) by tauto; lia).
      constructor; [constructor; assumption|]. constructor; [assumption|].
      eapply Forall_impl; [|exact Hall]. simpl; intros; lia.
    + constructor.
      * apply IH; [assumption|tauto].
      * apply Forall_forall. intros z Hz.
        eapply Permutation_in in Hz;
          [|apply Permutation_map, Permutation_sym, insert_by_perm].
        simpl in Hz. destruct Hz as [<-|Hz]; [lia|].
        rewrite Forall_forall in Hall. auto.
Qed.

(* sorting by an injective Z-valued key with <=? yields a list whose keys are strictly ascending *)
Lemma isort_by_key_sorted : forall A (key : A -> Z) (l : list A), NoDup (map key l) ->
  StronglySorted Z.lt (map key (isort_by (fun a b => key a <=? key b) l)).
Proof.
  intros A key l. induction l as [|x r IH]; intros Hnd; simpl.
  - constructor.
  - simpl in Hnd. inversion Hnd; subst. apply insert_by_key_sorted; [apply IH; assumption|].
    intros Hin. apply H1. eapply Permutation_in; [|exact Hin].
    apply Permutation_map, Permutation_sym, isort_by_perm.
Qed.

(* two strictly ascending (by key) lists that are permutations of each other are equal *)
Lemma sorted_perm_unique : forall A (key : A -> Z) (l1 l2 : list A),
  StronglySorted Z.lt (map key l1) -> StronglySorted Z.lt (map key l2) -> Permutation l1 l2 -> l1 = l2.
Proof.
  intros A key. induction l1 as [|a l1 IH]; intros [|b l2] H1 H2 HP.
  - reflexivity.
  - apply Permutation_nil in HP. discriminate.
  - apply Permutation_sym, Permutation_nil in HP. discriminate.
  - simpl in H1, H2. apply StronglySorted_inv in H1. apply StronglySorted_inv in H2.
    destruct H1 as [Hs1 Ha1]. destruct H2 as [Hs2 Ha2].
    rewrite Forall_forall in Ha1, Ha2.
    assert (Hab : a = b).
    { assert (Hin1 : In a (b :: l2)) by (eapply Permutation_in; [exact HP|left; reflexivity]).
      assert (Hin2 : In b (a :: l1)) by (eapply Permutation_in; [apply Permutation_sym; exact HP|left; reflexivity]).
      destruct Hin1 as [E|Hin1]; [auto|]. destruct Hin2 as [E|Hin2]; [auto|].
      apply (in_map key) in Hin1. apply (in_map key) in Hin2.
      apply Ha2 in Hin1. apply Ha1 in Hin2. lia. }
    subst b. f_equal. apply IH; auto. eapply Permutation_cons_inv. exact HP.
Qed.

Lemma sort_records_perm : forall l, Permutation l (sort_records l).
Proof. intros l. unfold sort_records. apply isort_by_perm. Qed.

Lemma sort_records_sorted : forall l, NoDup (map r_tag l) -> StronglySorted Z.lt (map r_tag (sort_records l)).
Proof. intros l H. unfold sort_records. apply isort_by_key_sorted. exact H. Qed.

Lemma ordered_entries_perm : forall m, Permutation m (ordered_entries m).
Proof. intros m. unfold ordered_entries. apply isort_by_perm. Qed.
