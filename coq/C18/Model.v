(* C18 — executable model of IFT patch application
   (incremental-font-transfer/src/{font_patch,table_keyed,glyph_keyed,patch_group}.rs and the
   patch readers of read-fonts/src/tables/ift.rs), hand-written from the source.  No proofs here.

   Fonts are finite maps tag |-> bytes (association lists sorted by tag = the BTreeMap inside
   write-fonts' FontBuilder); bytes are [list Z]; the brotli decoder is an ARGUMENT
   [dec : call index -> input -> optional dictionary -> max size -> error kind + bytes].
   Results are [err + A] with err = (class, detail):
     class 1 PatchParsingFailed(ReadError)   2 FontParsingFailed(ReadError)  3 SerializationError(flags)
           4 IncompatiblePatch  5 NonIncrementalFont  6 InvalidPatch(message)  7 EmptyPatchList
           8 InternalError      9 MissingPatches      98 = outside this model (gvar/CFF/CFF2 rewriting)
     ReadError detail: 1 OutOfBounds 2 MalformedData 3 NullOffset 4 TableIsMissing 5 InvalidArrayLen
     InvalidPatch detail: message number (see harness/src/bin/c18.rs [invalid_msg]); 10+k = DecodeError kind k.
   None of the modelled functions can panic (all arithmetic is checked or bounded in the Rust code);
   the harness maps an observed panic to class 99, which no model result equals. *)
From Coq Require Import ZArith List Bool.
From FV Require Import Lib.RustInt.
Import ListNotations.
Open Scope Z_scope.

Definition bytes := list Z.
Definition err := (Z * Z)%type.
Definition res (A : Type) := (err + A)%type.
Definition bind {A B} (r : res A) (f : A -> res B) : res B :=
  match r with inl e => inl e | inr a => f a end.
Notation "'let?' x := r 'in' k" := (bind r (fun x => k)) (at level 200, x pattern, r at level 100, k at level 200).

Definition len {A} (l : list A) : Z := Z.of_nat (length l).

(* b[s..e] *)
Definition slice (b : bytes) (s e : Z) : option bytes :=
  if (0 <=? s) && (s <=? e) && (e <=? len b)
  then Some (firstn (Z.to_nat (e - s)) (skipn (Z.to_nat s) b)) else None.
Definition uN_at (n : Z) (b : bytes) (i : Z) : option Z := option_map from_be (slice b i (i + n)).
Definition nthZ {A} (l : list A) (i : Z) : option A := if i <? 0 then None else nth_error l (Z.to_nat i).

(* [n] big-endian numbers of [w] bytes each *)
Fixpoint chunks (w : nat) (n : nat) (l : bytes) : list Z :=
  match n with O => [] | S n' => from_be (firstn w l) :: chunks w n' (skipn w l) end.

Definition bytes_eqb (a b : bytes) : bool :=
  Nat.eqb (length a) (length b) && forallb (fun p => Z.eqb (fst p) (snd p)) (combine a b).

(* ---------- fonts: BTreeMap<Tag, bytes> ---------- *)
Definition font := list (Z * bytes).
Fixpoint lookup {A} (f : list (Z * A)) (t : Z) : option A :=
  match f with [] => None | (t', d) :: r => if t =? t' then Some d else lookup r t end.
(* FontBuilder::add_raw = BTreeMap::insert *)
Fixpoint fb_add (t : Z) (d : bytes) (f : font) : font :=
  match f with
  | [] => [(t, d)]
  | (t', d') :: r => if t <? t' then (t, d) :: f else if t =? t' then (t, d) :: r else (t', d') :: fb_add t d r
  end.
Definition memZ (x : Z) (l : list Z) : bool := existsb (Z.eqb x) l.

Definition T_IFT := 1229345824.  Definition T_IFTX := 1229345880.
Definition T_glyf := 1735162214. Definition T_loca := 1819239265.
Definition T_head := 1751474532. Definition T_maxp := 1835104368.
Definition T_gvar := 1735811442. Definition T_CFF := 1128678944. Definition T_CFF2 := 1128678962.
Definition T_iftk := 1768322155. Definition T_ifgk := 1768318827.

(* table_keyed.rs copy_unprocessed_tables *)
Definition copy_unprocessed (f : font) (processed : list Z) (fb : font) : font :=
  fold_left (fun acc td => if memZ (fst td) processed then acc else fb_add (fst td) (snd td) acc) f fb.

(* ---------- decoder ---------- *)
Definition decoder := nat -> bytes -> option bytes -> Z -> (Z + bytes)%type.

(* ---------- patch bookkeeping types (patch_group.rs PatchInfo, UriStatus) ---------- *)
(* (uri, source table 0 = IFT / 1 = IFTX, expected compatibility id, application flag bit index) *)
Definition pinfo := (Z * Z * bytes * Z)%type.
Definition pi_uri (p : pinfo) : Z := let '(u, _, _, _) := p in u.
Definition pi_tbl (p : pinfo) : Z := let '(_, t, _, _) := p in t.
Definition pi_compat (p : pinfo) : bytes := let '(_, _, c, _) := p in c.
Definition pi_bit (p : pinfo) : Z := let '(_, _, _, b) := p in b.
(* None = Applied, Some data = Pending(data) *)
Definition statuses := list (Z * option bytes).

(* patchmap.rs IftTableTag::font_compat_id (well-formed format 1/2 mapping table: id at bytes 5..21) *)
Definition font_compat_id (f : font) (tbl : Z) : res bytes :=
  match lookup f (if tbl =? 0 then T_IFT else T_IFTX) with
  | None => inl (2, 4)
  | Some b => match slice b 5 21 with Some c => inr c | None => inl (2, 1) end
  end.

(* ================= table keyed (table_keyed.rs, TableKeyedPatch / TablePatch readers) ================= *)
(* (tag, flags, max_uncompressed_length, brotli stream cut to stream_length) *)
Definition tk_entry := (Z * Z * Z * bytes)%type.

(* one iteration of the loop in apply_table_keyed_patch up to the point where the tag is looked at:
   resolve the TablePatch offset, the two checked_sub, the stream length bound *)
Definition tk_read_entry (p : bytes) (off next : Z) : res tk_entry :=
  if off =? 0 then inl (1, 3)                                   (* NullOffset *)
  else if len p <? off + 9 then inl (1, 1)                      (* split_off / TablePatch::read *)
  else match uN_at 4 p off, uN_at 1 p (off + 4), uN_at 4 p (off + 5) with
  | Some tag, Some flags, Some maxlen =>
      if (next <? off) || (next - off <? 9) then inl (6, 4)     (* offsets not in sorted order *)
      else let sl := next - off - 9 in
      match slice p (off + 9) (off + 9 + sl) with
      | Some s => inr (tag, flags, maxlen, s)
      | None => inl (1, 1)
      end
  | _, _, _ => inl (1, 1)
  end.

Fixpoint tk_entries (p : bytes) (offs : list Z) : list (res tk_entry) :=
  match offs with
  | o :: ((n :: _) as r) => tk_read_entry p o n :: tk_entries p r
  | _ => []
  end.

(* the loop body after the entry has been read: first entry per tag wins, drop / replace / diff *)
Fixpoint tk_fold (dec : decoder) (f : font) (es : list (res tk_entry)) (k : nat)
         (processed : list Z) (fb : font) : res (list Z * font) :=
  match es with
  | [] => inr (processed, fb)
  | inl e :: _ => inl e
  | inr (tag, flags, maxlen, stream) :: r =>
      if memZ tag processed then tk_fold dec f r k processed fb
      else let processed' := tag :: processed in
      if Z.testbit flags 1 then tk_fold dec f r k processed' fb           (* DROP_TABLE *)
      else let replacement := Z.testbit flags 0 in
      match lookup f tag, replacement with
      | None, false => inl (6, 6)
      | base, _ =>
          match dec k stream (if replacement then None else base) maxlen with
          | inl kind => inl (6, 10 + kind)
          | inr out => tk_fold dec f r (S k) processed' (fb_add tag out fb)
          end
      end
  end.

(* TableKeyedPatch::read *)
Definition tk_header (p : bytes) : res (Z * bytes * list Z) :=
  match uN_at 4 p 0, slice p 8 24, uN_at 2 p 24 with
  | Some fmt, Some cid, Some count =>
      if 26 + (count + 1) * 4 <=? len p
      then inr (fmt, cid, chunks 4 (Z.to_nat (count + 1)) (skipn 26 p))
      else inl (1, 1)
  | _, _, _ => inl (1, 1)
  end.

(* table_keyed.rs apply_table_keyed_patch *)
Definition apply_table_keyed (dec : decoder) (f : font) (fmt : Z) (offs : list Z) (p : bytes) : res font :=
  if negb (fmt =? T_iftk) then inl (6, 1) else
  let? (processed, fb) := tk_fold dec f (tk_entries p offs) 0 [] [] in
  inr (copy_unprocessed f processed fb).

(* font_patch.rs  FontRef::apply_table_keyed_patch *)
Definition apply_table_keyed_patch (dec : decoder) (f : font) (info : pinfo) (p : bytes) : res font :=
  let? cid := font_compat_id f (pi_tbl info) in
  if negb (bytes_eqb cid (pi_compat info)) then inl (4, 0) else
  let? (fmt, pcid, offs) := tk_header p in
  if negb (bytes_eqb pcid cid) then inl (4, 0) else
  apply_table_keyed dec f fmt offs p.

(* ================= glyph keyed ================= *)
(* read-fonts GlyphPatches: glyph ids, table tags, glyph data offsets, the whole decoded buffer *)
Record gp := { gp_gids : list Z; gp_tables : list Z; gp_offs : list Z; gp_raw : bytes }.

(* GlyphPatches::read (generated) *)
Definition gp_read (d : bytes) (wide : bool) : res gp :=
  match uN_at 4 d 0, uN_at 1 d 4 with
  | Some gc, Some tc =>
      let w := if wide then 3 else 2 in
      let tstart := 5 + gc * w in
      let ostart := tstart + tc * 4 in
      let e := ostart + (gc * tc + 1) * 4 in
      if e <=? len d then
        inr {| gp_gids := chunks (Z.to_nat w) (Z.to_nat gc) (skipn 5 d);
               gp_tables := chunks 4 (Z.to_nat tc) (skipn (Z.to_nat tstart) d);
               gp_offs := chunks 4 (Z.to_nat (gc * tc + 1)) (skipn (Z.to_nat ostart) d);
               gp_raw := d |}
      else inl (1, 1)
  | _, _ => inl (1, 1)
  end.

(* GlyphDataIterator::next, run to the first error *)
Fixpoint gp_items_loop (raw : bytes) (gids : list Z) (offs : list Z) (prev : option Z) : res (list (Z * bytes)) :=
  match gids, offs with
  | g :: gr, s :: ((e :: _) as or) =>
      if match prev with Some p => g <=? p | None => false end then inl (1, 2)
      else if e <? s then inl (1, 2)
      else if s =? 0 then inl (1, 3)
      else match slice raw s (s + (e - s)) with
      | None => inl (1, 1)
      | Some d => let? rest := gp_items_loop raw gr or (Some g) in inr ((g, d) :: rest)
      end
  | _, _ => inr []
  end.

Fixpoint find_index (t : Z) (l : list Z) (i : nat) : option nat :=
  match l with [] => None | x :: r => if x =? t then Some i else find_index t r (S i) end.

(* GlyphPatches::glyph_data_for_table for the table tagged [t] (None: the patch does not list it) *)
Definition gp_items (v : gp) (t : Z) : res (list (Z * bytes)) :=
  match find_index t (gp_tables v) 0 with
  | None => inr []
  | Some ti => gp_items_loop (gp_raw v) (gp_gids v) (skipn (ti * length (gp_gids v)) (gp_offs v)) None
  end.

(* replacement data per gid: strictly ascending association list (IntSet + HashMap in the Rust code) *)
Definition gmap := list (Z * bytes).
(* data_for_gid.entry(gid).or_insert(data) *)
Fixpoint gm_insert (g : Z) (d : bytes) (m : gmap) : gmap :=
  match m with
  | [] => [(g, d)]
  | (g', d') :: r => if g <? g' then (g, d) :: m else if g =? g' then m else (g', d') :: gm_insert g d r
  end.
Definition gm_insert_all (items : list (Z * bytes)) (m : gmap) : gmap :=
  fold_left (fun acc gd => gm_insert (fst gd) (snd gd) acc) items m.

Fixpoint mapM {A B} (f : A -> res B) (l : list A) : res (list B) :=
  match l with
  | [] => inr []
  | x :: r => let? y := f x in let? ys := mapM f r in inr (y :: ys)
  end.

(* glyph_keyed.rs dedup_gid_replacement_data: first patch wins per gid *)
Definition dedup (views : list gp) (t : Z) : res gmap :=
  let? items := mapM (fun v => gp_items v t) views in
  inr (gm_insert_all (concat items) []).

(* offset types (OffsetTypeInfo): width, divisor, bias, max_representable_size *)
Record otype := { ot_width : Z; ot_div : Z; ot_bias : Z; ot_max : Z }.
Definition ot_short := {| ot_width := 2; ot_div := 2; ot_bias := 0; ot_max := 131070 |}.
Definition ot_long := {| ot_width := 4; ot_div := 1; ot_bias := 0; ot_max := 4294967295 |}.
Definition otype_eqb (a b : otype) : bool :=
  (ot_width a =? ot_width b) && (ot_div a =? ot_div b) && (ot_bias a =? ot_bias b).

(* retained_glyphs_in_font: complement of the replaced gids, clamped to [0, maxgid], as inclusive ranges
   (IntSet::iter_excluded_ranges + the filter_map) *)
Fixpoint keep_from (lo : Z) (gids : list Z) (maxgid : Z) : list (Z * Z) :=
  match gids with
  | [] => if lo <=? maxgid then [(lo, maxgid)] else []
  | g :: r => (if (lo <? g) && (lo <=? maxgid) then [(lo, Z.min (g - 1) maxgid)] else [])
              ++ keep_from (g + 1) r maxgid
  end.

(* retained_glyphs_total_size; [e_off] = the error of offset_for for a missing entry
   (glyf: InvalidPatch "Start loca entry is missing."; gvar: FontParsingFailed(OutOfBounds)) *)
Fixpoint retained_total (ranges : list (Z * Z)) (offs : list Z) (e_off : err) (acc : Z) : res Z :=
  match ranges with
  | [] => inr acc
  | (s, e) :: r =>
      match nthZ offs s, nthZ offs (e + 1) with
      | Some so, Some eo => if eo <? so then inl (2, 2) else retained_total r offs e_off (acc + (eo - so))
      | _, _ => inl e_off
      end
  end.

(* the upgrade decision in patch_offset_array *)
Definition choose_type (T : otype) (avail : list otype) (total : Z) : res otype :=
  if total >? ot_max T then
    match find (fun c => total <=? ot_max c) avail with Some c => inr c | None => inl (3, 2) end
  else inr T.

Fixpoint ascending (l : list Z) : bool :=
  match l with a :: ((b :: _) as r) => (a <=? b) && ascending r | _ => true end.

Definition padding (T : otype) (n : Z) : Z := if 1 <? ot_div T then n mod ot_div T else 0.
Definition off_fits (T : otype) (w : Z) : bool := w / ot_div T + ot_bias T <? 2 ^ (8 * ot_width T).

(* OffsetArrayBuilder::build, literal: the loop walks maximal runs of replaced gids (IntSet::iter_ranges,
   [runs_from]) and of kept gids ([keep_from]), taking whichever starts first; a replaced run consumes the
   next replacement data items one by one; a kept run copies offsets[start]..offsets[end+1] in one piece
   and rebases every offset inside it.  Accumulators = the two Serializers (their capacity is exactly what
   is written, see notes).  Result: logical (byte) offsets incl. the final one, and the data. *)
Fixpoint runs_from (gids : list Z) : list (Z * Z) :=
  match gids with
  | [] => []
  | g :: r => match runs_from r with
              | (s, e) :: rr => if s =? g + 1 then (g, e) :: rr else (g, g) :: (s, e) :: rr
              | [] => [(g, g)]
              end
  end.
Fixpoint zrange (s : Z) (n : nat) : list Z := match n with O => [] | S k => s :: zrange (s + 1) k end.

Fixpoint rep_steps (ds : list bytes) (T : otype) (w : Z) (acc_o : list Z) (acc_d : bytes)
  : res (Z * list Z * bytes) :=
  match ds with
  | [] => inr (w, acc_o, acc_d)
  | d :: r =>
      if off_fits T w then
        rep_steps r T (w + len d + padding T (len d)) (acc_o ++ [w])
                  (acc_d ++ d ++ repeat 0 (Z.to_nat (padding T (len d))))
      else inl (8, 0)
  end.

Definition run_len (r : Z * Z) : nat := Z.to_nat (snd r - fst r + 1).
(* a run of replaced gids: the next [run_len r] replacement data items *)
Definition rep_run (r : Z * Z) (rdata : list bytes) (T : otype) (w : Z) (acc_o : list Z) (acc_d : bytes)
  : res (Z * list Z * bytes) :=
  if Nat.ltb (length rdata) (run_len r) then inl (8, 0)
  else rep_steps (firstn (run_len r) rdata) T w acc_o acc_d.
(* a run of kept gids: one copy of offsets[start]..offsets[end+1], every offset inside rebased *)
Definition keep_off (offs : list Z) (T : otype) (e_off : err) (so w g : Z) : res Z :=
  match nthZ offs g with
  | Some c => if off_fits T (c - so + w) then inr (c - so + w) else inl (8, 0)
  | None => inl e_off
  end.
Definition keep_run (r : Z * Z) (offs : list Z) (data : bytes) (T : otype) (e_off : err)
           (w : Z) (acc_o : list Z) (acc_d : bytes) : res (Z * list Z * bytes) :=
  match nthZ offs (fst r), nthZ offs (snd r + 1) with
  | Some so, Some eo =>
      if eo <? so then inl (8, 0) else
      match slice data so eo with
      | None => inl (2, 1)
      | Some chunk =>
          let? os := mapM (keep_off offs T e_off so w) (zrange (fst r) (run_len r)) in
          inr (w + (eo - so), acc_o ++ os, acc_d ++ chunk)
      end
  | _, _ => inl e_off
  end.

Fixpoint build_runs (fuel : nat) (rep keep : list (Z * Z)) (rdata : list bytes) (offs : list Z) (data : bytes)
         (T : otype) (e_off : err) (w : Z) (acc_o : list Z) (acc_d : bytes) : res (list Z * bytes) :=
  match fuel with
  | O => inl (8, 1)
  | S fuel' =>
      let do_rep (r : Z * Z) rep' :=
        let? (w2, o2, d2) := rep_run r rdata T w acc_o acc_d in
        build_runs fuel' rep' keep (skipn (run_len r) rdata) offs data T e_off w2 o2 d2 in
      let do_keep (r : Z * Z) keep' :=
        let? (w2, o2, d2) := keep_run r offs data T e_off w acc_o acc_d in
        build_runs fuel' rep keep' rdata offs data T e_off w2 o2 d2 in
      match rep, keep with
      | r :: rep', k :: keep' => if fst r <=? fst k then do_rep r rep' else do_keep k keep'
      | r :: rep', [] => do_rep r rep'
      | [], k :: keep' => do_keep k keep'
      | [], [] => if off_fits T w then inr (acc_o ++ [w], acc_d) else inl (8, 0)
      end
  end.

(* the same builder glyph by glyph — the SPECIFICATION used by the proofs; Proofs: whenever the literal
   loop above succeeds (under the checks patch_offset_array makes before calling it) this function
   returns the same offsets and data ([build_runs_sound]) *)
Fixpoint build_loop (n : nat) (gid : Z) (repl : gmap) (offs : list Z) (data : bytes) (T : otype) (e_off : err) (w : Z)
  : res (list Z * bytes) :=
  match n with
  | O => if off_fits T w then inr ([w], []) else inl (8, 0)
  | S n' =>
      let keep :=
        match nthZ offs gid, nthZ offs (gid + 1) with
        | Some s, Some e =>
            match slice data s e with
            | Some sl =>
                if off_fits T w then
                  let? (os, ds) := build_loop n' (gid + 1) repl offs data T e_off (w + (e - s)) in
                  inr (w :: os, sl ++ ds)
                else inl (8, 0)
            | None => inl (2, 1)
            end
        | _, _ => inl e_off
        end in
      match repl with
      | (g, d) :: r' =>
          if g =? gid then
            if off_fits T w then
              let pad := padding T (len d) in
              let? (os, ds) := build_loop n' (gid + 1) r' offs data T e_off (w + len d + pad) in
              inr (w :: os, d ++ repeat 0 (Z.to_nat pad) ++ ds)
            else inl (8, 0)
          else keep
      | [] => keep
      end
  end.

(* patch_offset_array, generic in the offset array: [offs] = what offset_for returns (for gvar shifted by
   the data array offset so that [data] is the whole table), [data] = what get() slices, [chk] = the offsets
   that all_offsets_are_ascending looks at: all of them for every table kind since /repo 6183e73 (before that
   fix CFF/CFF2 compared only the first [count] offsets — finding F-C18-3; [chk] is kept so that the old
   behaviour can be stated and refuted, see Examples.v) *)
Definition patch_offset_array_gen (views : list gp) (t : Z) (offs chk : list Z) (data : bytes)
           (T : otype) (avail : list otype) (e_off : err) (maxgid : Z) : res (otype * list Z * bytes) :=
  match dedup views t with
  | inl (_, c) => inl (1, c)
  | inr m =>
      let gids := map fst m in
      let keep := keep_from 0 gids maxgid in
      let? total0 := retained_total keep offs e_off 0 in
      let total := fold_left (fun a gd => a + (len (snd gd) + len (snd gd) mod ot_div T)) m total0 in
      let? T' := choose_type T avail total in
      if last gids 0 >? maxgid then inl (6, 9) else
      if negb (ascending chk) then inl (2, 2) else
      let? (os, ds) := build_runs (S (S (length m + length keep))) (runs_from gids) keep (map snd m)
                                  offs data T' e_off 0 [] [] in
      inr (T', os, ds)
  end.
Definition patch_offset_array (views : list gp) (t : Z) (offs : list Z) (data : bytes)
           (T : otype) (avail : list otype) (e_off : err) (maxgid : Z) : res (otype * list Z * bytes) :=
  patch_offset_array_gen views t offs offs data T avail e_off maxgid.

Definition encode_offsets (T : otype) (os : list Z) : bytes :=
  concat (map (fun w => to_be (Z.to_nat (ot_width T)) (w / ot_div T + ot_bias T)) os).

(* TableProvider::loca + Loca::get_raw: None when head/loca are missing or loca has a bad length *)
Definition read_loca (f : font) : option (otype * list Z) :=
  match lookup f T_head, lookup f T_loca with
  | Some h, Some l =>
      if len h <? 54 then None else
      match uN_at 2 h 50 with
      | Some fmt =>
          if fmt =? 1 then
            if len l mod 4 =? 0 then Some (ot_long, chunks 4 (Z.to_nat (len l / 4)) l) else None
          else
            if len l mod 2 =? 0 then Some (ot_short, map (fun x => x * 2) (chunks 2 (Z.to_nat (len l / 2)) l)) else None
      | None => None
      end
  | _, _ => None
  end.

(* the glyf branch of apply_glyph_keyed_patches + GlyfAndLoca::add_to_font: tables to add *)
Definition patch_glyf (f : font) (views : list gp) (maxgid : Z) : res (list (Z * bytes)) :=
  match lookup f T_glyf, read_loca f with
  | Some glyf, Some (T, offs) =>
      let? (T', os, ds) := patch_offset_array views T_glyf offs glyf T [T] (6, 10) maxgid in
      if negb (otype_eqb T' T) then inl (3, 2) else inr [(T_glyf, ds); (T_loca, encode_offsets T' os)]
  | _, _ => inl (6, 8)
  end.

(* Gvar::read (generated) + the accessors used by impl GlyphDataOffsetArray for Gvar:
   (axis count, shared tuple count, shared tuples offset, glyph count, low flag byte, data array offset,
    offset type, raw offsets as returned by offset_for) *)
Definition read_gvar (g : bytes) : option (Z * Z * Z * Z * Z * Z * otype * list Z) :=
  match uN_at 2 g 4, uN_at 2 g 6, uN_at 4 g 8, uN_at 2 g 12, uN_at 2 g 14, uN_at 4 g 16 with
  | Some axis, Some stc, Some sto, Some gc, Some flags, Some dao =>
      let long := Z.testbit flags 0 in
      let w := if long then 4 else 2 in
      if len g <? 20 + (gc + 1) * w then None else
      let raw := chunks (Z.to_nat w) (Z.to_nat (gc + 1)) (skipn 20 g) in
      Some (axis, stc, sto, gc, flags mod 256, dao,
            if long then ot_long else ot_short, if long then raw else map (fun x => x * 2) raw)
  | _, _, _, _, _, _ => None
  end.

Definition set_u32 (b : bytes) (pos : nat) (v : Z) : bytes := firstn pos b ++ to_be 4 v ++ skipn (pos + 4) b.

(* impl GlyphDataOffsetArray for Gvar :: add_to_font, incl. the klippa Serializer's capacity
   (max_new_size = orig_size + data length + offsets length), its refusal to pack an empty object, and the object order
   header+offsets | shared tuples | glyph variation data *)
Definition gvar_assemble (g : bytes) (hdr : Z * Z * Z * Z * Z * Z * otype * list Z) (T' : otype)
           (os : list Z) (ds : bytes) : res bytes :=
  let '(axis, stc, sto, gc, flags_lo, dao, T, _) := hdr in
  let enc := encode_offsets T' os in
  if otype_eqb T' T && negb (len enc =? (gc + 1) * ot_width T) then inl (8, 0) else
  let flags' := if ot_width T' =? 4 then Z.lor flags_lo 1 else Z.land flags_lo 254 in
  let cap := len g + len ds + len enc in
  let mainlen := 20 + len enc in
  if cap <? mainlen + len ds then inl (3, 4) else
  if len ds =? 0 then inl (3, 0) else
  if sto =? 0 then inl (2, 3) else
  match slice g sto (sto + stc * axis * 2) with
  | None => inl (2, 1)
  | Some shared =>
      if cap <? mainlen + len ds + len shared then inl (3, 4) else
      let main := firstn 15 g ++ [flags'] ++ firstn 4 (skipn 16 g) ++ enc in
      let main := set_u32 main 8 mainlen in
      let main := set_u32 main 16 (mainlen + len shared) in
      inr (main ++ shared ++ ds)
  end.

(* the gvar branch of apply_glyph_keyed_patches *)
Definition patch_gvar (f : font) (views : list gp) (maxgid : Z) : res (list (Z * bytes)) :=
  match lookup f T_gvar with
  | Some g =>
      match read_gvar g with
      | Some hdr =>
          let '(_, _, _, _, _, dao, T, offs) := hdr in
          let? (T', os, ds) := patch_offset_array views T_gvar (map (fun o => dao + o) offs) g T
                                                  [ot_short; ot_long] (2, 1) maxgid in
          let? g' := gvar_assemble g hdr T' os ds in
          inr [(T_gvar, g')]
      | None => inl (6, 17)
      end
  | None => inl (6, 17)
  end.

(* table_tag_list: per patch strictly ascending tags *)
Fixpoint strictly_ascending (l : list Z) : bool :=
  match l with a :: ((b :: _) as r) => (a <? b) && strictly_ascending r | _ => true end.
Definition lists_tag (views : list gp) (t : Z) : bool := existsb (fun v => memZ t (gp_tables v)) views.

(* *byte |= 1 << bit_index  in the IFT / IFTX copy *)
Fixpoint set_bit (d : bytes) (byte_index : nat) (bit : Z) : option bytes :=
  match d, byte_index with
  | [], _ => None
  | b :: r, O => Some (Z.lor b (Z.shiftl 1 bit) :: r)
  | b :: r, S i => option_map (cons b) (set_bit r i bit)
  end.
Definition mark_applied (st : option bytes * option bytes) (info : pinfo) : res (option bytes * option bytes) :=
  let '(ift, iftx) := st in
  let upd (o : option bytes) : res (option bytes) :=
    match o with
    | None => inl (8, 0)
    | Some d => match set_bit d (Z.to_nat (pi_bit info / 8)) (pi_bit info mod 8) with
                | Some d' => inr (Some d') | None => inl (8, 0) end
    end in
  if pi_tbl info =? 0 then let? i' := upd ift in inr (i', iftx)
  else let? x' := upd iftx in inr (ift, x').
Fixpoint mark_all (st : option bytes * option bytes) (infos : list pinfo) : res (option bytes * option bytes) :=
  match infos with
  | [] => inr st
  | i :: r => let? st' := mark_applied st i in mark_all st' r
  end.

(* CFF / CFF2 offset types: 1..4 byte offsets, 1-based (bias 1), undivided *)
Definition ot_cff (w : Z) : otype := {| ot_width := w; ot_div := 1; ot_bias := 1; ot_max := 2 ^ (8 * w) - 2 |}.
Definition cff_types : list otype := [ot_cff 1; ot_cff 2; ot_cff 3; ot_cff 4].

(* PatchMapFormat2::cff_charstrings_offset / cff2_charstrings_offset of the font's "IFT " table
   (well-formed format-2 table: field flags at byte 4, the optional u32 fields follow the URI template) *)
Definition ift_charstrings_offset (f : font) (cff2 : bool) : option Z :=
  match lookup f T_IFT with
  | None => None
  | Some b =>
      match uN_at 1 b 0, uN_at 1 b 4, uN_at 2 b 33 with
      | Some fmt, Some flags, Some tl =>
          if negb (fmt =? 2) then None else
          let p := 35 + tl in
          if cff2 then (if Z.testbit flags 1 then uN_at 4 b (if Z.testbit flags 0 then p + 4 else p) else None)
          else (if Z.testbit flags 0 then uN_at 4 b p else None)
      | _, _, _ => None
      end
  end.

(* CFFAndCharStrings::from_cff_font / from_cff2_font (the CFF/CFF2 table itself is assumed to pass
   Cff::read / Cff2::read) + impl GlyphDataOffsetArray for CFFAndCharStrings incl. add_to_font.
   [cw] = width of the INDEX count field (2 for CFF, 4 for CFF2). *)
Definition patch_cff (cw : Z) (tg : Z) (cff2 : bool) (f : font) (views : list gp) (maxgid : Z) : res (list (Z * bytes)) :=
  match ift_charstrings_offset f cff2 with
  | None => inl (6, if cff2 then 19 else 18)
  | Some cs_off =>
      match lookup f tg with
      | None => inl (2, 4)
      | Some tbl =>
          if len tbl <? cs_off then inl (2, 1) else
          let cs := skipn (Z.to_nat cs_off) tbl in
          match uN_at cw cs 0, uN_at 1 cs cw with
          | Some count, Some offsz =>
              let base := cw + 1 + (count + 1) * offsz in
              if len cs <? base then inl (2, 1) else
              if (offsz <? 1) || (4 <? offsz) then inl (2, 2) else
              if negb (count =? maxgid + 1) then inl (2, 2) else
              let offs := map (fun x => x - 1) (chunks (Z.to_nat offsz) (Z.to_nat (count + 1)) (skipn (Z.to_nat (cw + 1)) cs)) in
              let obj := skipn (Z.to_nat base) cs in
              let? (T', os, ds) := patch_offset_array views tg offs obj (ot_cff offsz) cff_types (2, 1) maxgid in
              inr [(tg, firstn (Z.to_nat cs_off) tbl ++ to_be (Z.to_nat cw) count ++ [ot_width T']
                        ++ encode_offsets T' os ++ ds)]
          | _, _ => inl (2, 1)
          end
      end
  end.

(* the per-table branches of apply_glyph_keyed_patches in the order of the BTreeSet of tags
   ('CFF ' < 'CFF2' < 'glyf' < 'gvar'); each returns the tables it adds to the font builder. *)
Definition handler := font -> list gp -> Z -> res (list (Z * bytes)).
Definition handlers : list (Z * handler) :=
  [(T_CFF, patch_cff 2 T_CFF false); (T_CFF2, patch_cff 4 T_CFF2 true);
   (T_glyf, patch_glyf); (T_gvar, patch_gvar)].
Fixpoint run_handlers (hs : list (Z * handler)) (f : font) (views : list gp) (maxgid : Z)
         (processed : list Z) (fb : font) : res (list Z * font) :=
  match hs with
  | [] => inr (processed, fb)
  | (t, h) :: r =>
      if lists_tag views t then
        let? adds := h f views maxgid in
        run_handlers r f views maxgid (map fst adds ++ processed)
                     (fold_left (fun acc td => fb_add (fst td) (snd td) acc) adds fb)
      else run_handlers r f views maxgid processed fb
  end.

(* glyph_keyed.rs apply_glyph_keyed_patches after decoding and GlyphPatches::read *)
Definition gk_core (f : font) (infos : list pinfo) (views : list gp) : res font :=
  let? ng :=
    match lookup f T_maxp with
    | None => inl (2, 4)
    | Some m => match uN_at 2 m 4 with Some n => inr n | None => inl (2, 1) end
    end in
  if ng =? 0 then inl (2, 2) else
  let maxgid := ng - 1 in
  if negb (forallb (fun v => strictly_ascending (gp_tables v)) views) then inl (6, 7) else
  let? (processed, fb) := run_handlers handlers f views maxgid [T_IFT; T_IFTX] [] in
  let? (ift', iftx') := mark_all (lookup f T_IFT, lookup f T_IFTX) infos in
  let fb := match ift' with Some d => fb_add T_IFT d fb | None => fb end in
  let fb := match iftx' with Some d => fb_add T_IFTX d fb | None => fb end in
  inr (copy_unprocessed f processed fb).

(* GlyphKeyedPatch::read : (format, wide gids, compat id, max_uncompressed_length, brotli stream) *)
Definition gk_header (p : bytes) : res (Z * bool * bytes * Z * bytes) :=
  match uN_at 4 p 0, uN_at 1 p 8, slice p 9 25, uN_at 4 p 25 with
  | Some fmt, Some flags, Some cid, Some maxlen => inr (fmt, Z.testbit flags 0, cid, maxlen, skipn 29 p)
  | _, _, _, _ => inl (1, 1)
  end.

(* font_patch.rs FontRef::apply_glyph_keyed_patches: the compat-id loop *)
Fixpoint gk_headers (f : font) (ps : list (pinfo * bytes)) : res (list (Z * bool * bytes * Z * bytes)) :=
  match ps with
  | [] => inr []
  | (info, p) :: r =>
      let? cid := font_compat_id f (pi_tbl info) in
      if negb (bytes_eqb cid (pi_compat info)) then inl (4, 0) else
      let? (fmt, wide, pcid, maxlen, stream) := gk_header p in
      if negb (bytes_eqb cid pcid) then inl (4, 0) else
      let? rest := gk_headers f r in
      inr ((fmt, wide, pcid, maxlen, stream) :: rest)
  end.

(* glyph_keyed.rs apply_glyph_keyed_patches: format check + decode, patch by patch *)
Fixpoint gk_decode (dec : decoder) (hs : list (Z * bool * bytes * Z * bytes)) (k : nat) : res (list (bytes * bool)) :=
  match hs with
  | [] => inr []
  | (fmt, wide, _, maxlen, stream) :: r =>
      if negb (fmt =? T_ifgk) then inl (6, 2) else
      match dec k stream None maxlen with
      | inl kind => inl (6, 10 + kind)
      | inr out => let? rest := gk_decode dec r (S k) in inr ((out, wide) :: rest)
      end
  end.

Definition apply_glyph_keyed_patches (dec : decoder) (f : font) (ps : list (pinfo * bytes)) : res font :=
  let? hs := gk_headers f ps in
  let? bufs := gk_decode dec hs 0 in
  match mapM (fun bw => gp_read (fst bw) (snd bw)) bufs with
  | inl (_, c) => inl (1, c)
  | inr views => gk_core f (map fst ps) views
  end.

(* ================= patch_group.rs PatchGroup::apply_next_patches_with_decoder ================= *)
Definition set_applied (st : statuses) (u : Z) : statuses :=
  map (fun us => if fst us =? u then (fst us, None) else us) st.

Fixpoint accumulate (st : statuses) (infos : list pinfo) : res (list (pinfo * bytes)) :=
  match infos with
  | [] => inr []
  | i :: r =>
      match lookup st (pi_uri i) with
      | None => inl (9, 0)
      | Some (Some d) => let? rest := accumulate st r in inr ((i, d) :: rest)
      | Some None => accumulate st r
      end
  end.

Definition apply_non_invalidating (dec : decoder) (f : font) (noninv : list pinfo) (st : statuses)
  : res font * statuses :=
  match accumulate st noninv with
  | inl e => (inl e, st)
  | inr [] => (inl (7, 0), st)
  | inr acc =>
      match apply_glyph_keyed_patches dec f acc with
      | inl e => (inl e, st)
      | inr f' => (inr f', fold_left (fun s i => set_applied s (pi_uri i)) noninv st)
      end
  end.

Definition apply_next (dec : decoder) (f : font) (inv : option pinfo) (noninv : list pinfo) (st : statuses)
  : res font * statuses :=
  match inv with
  | Some p =>
      match lookup st (pi_uri p) with
      | None => (inl (9, 0), st)
      | Some (Some data) =>
          match apply_table_keyed_patch dec f p data with
          | inl e => (inl e, st)
          | inr f' => (inr f', set_applied st (pi_uri p))
          end
      | Some None => apply_non_invalidating dec f noninv st
      end
  | None => apply_non_invalidating dec f noninv st
  end.

(* ================= correspondence cases (harness/src/bin/c18.rs) ================= *)
(* the harness' fault-injecting decoder: identity framing (output = dictionary ++ input) *)
Definition test_dec (fail_at kind : Z) : decoder := fun k input dict maxlen =>
  if Z.of_nat k =? fail_at then inl kind else
  let out := match dict with Some d => d ++ input | None => input end in
  if len out >? maxlen then inl 4 else inr out.

Definition canon_head (f : font) : font :=
  map (fun td => if (fst td =? T_head) && (12 <=? len (snd td))
                 then (fst td, firstn 8 (snd td) ++ [0; 0; 0; 0] ++ skipn 12 (snd td)) else td) f.
Fixpoint font_eqb (a b : font) : bool :=
  match a, b with
  | [], [] => true
  | (t, d) :: r, (t', d') :: r' => (t =? t') && bytes_eqb d d' && font_eqb r r'
  | _, _ => false
  end.
Fixpoint flags_eqb (a : statuses) (b : list (Z * bool)) : bool :=
  match a, b with
  | [], [] => true
  | (u, s) :: r, (u', ap) :: r' =>
      (u =? u') && Bool.eqb (match s with None => true | Some _ => false end) ap && flags_eqb r r'
  | _, _ => false
  end.

Definition case_ty : Type :=
  (font * option pinfo * list pinfo * statuses * (Z * Z) * (Z * Z) * font * list (Z * bool))%type.

Definition check_case (c : case_ty) : bool :=
  let '(f, inv, noninv, st, (fail_at, kind), (cls, det), out, st_after) := c in
  let '(r, st') := apply_next (test_dec fail_at kind) f inv noninv st in
  flags_eqb st' st_after &&
  match r with
  | inl (c', d') => (c' =? cls) && (d' =? det)
  | inr f' => (cls =? 0) && font_eqb (canon_head f') (canon_head out)
  end.
