(* C18 — any partition of a set of glyph keyed patches into successive calls (in any order) gives the same
   font and the same bookkeeping as one call; short-loca overflow is an error; loca width matches head *)
From Coq Require Import ZArith List Bool Lia Permutation.
From FV Require Import Lib.RustInt C18.Model C18.GkProofs C18.Runs C18.GkProofs2 C18.Grouping.
Import ListNotations.
Open Scope Z_scope.

(* successive PatchGroup calls, each with its own (info, decoded patch) pairs *)
Definition block := list (pinfo * gp).
Fixpoint gk_seq (f : font) (blocks : list block) : res font :=
  match blocks with
  | [] => inr f
  | b :: r => let? f' := gk_core f (map fst b) (map snd b) in gk_seq f' r
  end.
Definition one_call (f : font) (blocks : list block) : res font :=
  gk_core f (map fst (concat blocks)) (map snd (concat blocks)).

Lemma gk_seq_app f a b : gk_seq f (a ++ b) = (let? f' := gk_seq f a in gk_seq f' b).
Proof.
  revert f. induction a as [|x r IH]; intros f; [reflexivity|]. cbn [app gk_seq].
  destruct (gk_core f (map fst x) (map snd x)); cbn [bind]; [reflexivity | apply IH].
Qed.

Lemma glyf_only_app a b : glyf_only (a ++ b) -> glyf_only a /\ glyf_only b.
Proof.
  intros [A [B C]]. rewrite lists_tag_app in A, B, C. apply orb_false_elim in A, B, C. unfold glyf_only. tauto.
Qed.

(* hypotheses about the whole patch set, stated for every prefix of the partition (the agreement of the
   patches on shared glyphs — which the IFT specification requires — is the essential one) *)
Definition prefix_ok (f : font) (blocks : list block) : Prop :=
  forall j, (j <= length blocks)%nat ->
    views_agree T_glyf (map snd (concat (firstn j blocks))) /\
    exists P, one_call f (firstn j blocks) = inr P.

Theorem gk_partition f : gm_ok f ->
  (forall mx ng, lookup f T_maxp = Some mx -> uN_at 2 mx 4 = Some ng -> 0 <= ng) ->
  forall blocks Fs,
  gids_nonneg (map snd (concat blocks)) -> glyf_only (map snd (concat blocks)) ->
  prefix_ok f blocks -> gk_seq f blocks = inr Fs -> one_call f blocks = inr Fs.
Proof.
  intros Hf Hng. induction blocks as [|b bs IH] using rev_ind; intros Fs Hnn Hgo Hpre Hseq.
  - (* no call at all: nothing to compare with; one call with no patches is not made by PatchGroup,
       but the model's gk_core on [] is the identity up to table order — use the prefix hypothesis *)
    cbn in Hseq. inversion Hseq; subst Fs.
    destruct (Hpre 0%nat ltac:(cbn; lia)) as [_ [P HP]]. cbn [firstn] in HP.
    unfold one_call in *. cbn [concat map] in *.
    (* gk_core f [] [] = inr P and P = f by extensionality *)
    pose proof (gk_core_ok _ _ _ _ HP) as OkP.
    assert (P = f); [|congruence].
    apply gm_ext; [exact OkP | exact Hf |]. intros x.
    assert (Hg : glyf_only []) by (unfold glyf_only, lists_tag; cbn; auto).
    destruct (gk_core_shape _ _ _ _ Hf Hg HP) as [mx [ng [a [b0 [_ [_ [_ [_ [_ [_ [MA [I1 [X1 G]]]]]]]]]]]]].
    cbn in MA. inversion MA as [[Ea Eb]]. cbn in G. destruct G as [G1 G2].
    destruct (Z.eq_dec x T_IFT) as [->|N3]; [congruence|]. destruct (Z.eq_dec x T_IFTX) as [->|N4]; [congruence|].
    destruct (Z.eq_dec x T_glyf) as [->|N1]; [exact G1|]. destruct (Z.eq_dec x T_loca) as [->|N2]; [exact G2|].
    apply (gk_core_rest _ _ _ _ Hf Hg HP); assumption.
  - rewrite gk_seq_app in Hseq. destruct (gk_seq f bs) as [?|S] eqn:ES; cbn [bind] in Hseq; [discriminate|].
    cbn [gk_seq] in Hseq. destruct (gk_core S (map fst b) (map snd b)) as [?|F2] eqn:E2; cbn [bind] in Hseq; [discriminate|].
    inversion Hseq; subst F2.
    rewrite concat_app in Hnn, Hgo. cbn [concat] in Hnn, Hgo. rewrite app_nil_r in Hnn, Hgo. rewrite map_app in Hnn, Hgo.
    destruct (glyf_only_app _ _ Hgo) as [Hgo1 Hgo2].
    assert (Hnn1 : gids_nonneg (map snd (concat bs))) by (unfold gids_nonneg in *; apply Forall_app in Hnn; tauto).
    assert (Hpre1 : prefix_ok f bs).
    { intros j Hj. specialize (Hpre j ltac:(rewrite app_length; cbn; unfold block in *; lia)).
      rewrite firstn_app in Hpre. replace (j - length bs)%nat with 0%nat in Hpre by (unfold block in *; lia).
      cbn [firstn] in Hpre. rewrite app_nil_r in Hpre. exact Hpre. }
    specialize (IH S Hnn1 Hgo1 Hpre1 eq_refl).
    destruct (Hpre (length (bs ++ [b])) (le_n _)) as [Hag [P HP]].
    rewrite firstn_all in Hag, HP. unfold one_call in *.
    rewrite concat_app in Hag, HP |- *. cbn [concat] in Hag, HP |- *. rewrite app_nil_r in Hag, HP |- *.
    repeat rewrite map_app in HP. repeat rewrite map_app in Hag. repeat rewrite map_app.
    rewrite HP. f_equal. symmetry.
    eapply (gk_core_grouping f (map fst (concat bs)) (map fst b) (map snd (concat bs)) (map snd b) P S Fs); eauto.
Qed.

(* two partitions (in any order) of the same set of patches give the same font *)
Theorem gk_any_partition f blocks blocks' Fs Fs' : gm_ok f ->
  (forall mx ng, lookup f T_maxp = Some mx -> uN_at 2 mx 4 = Some ng -> 0 <= ng) ->
  Permutation (concat blocks) (concat blocks') ->
  agree_all (map snd (concat blocks)) ->
  gids_nonneg (map snd (concat blocks)) -> glyf_only (map snd (concat blocks)) ->
  gids_nonneg (map snd (concat blocks')) -> glyf_only (map snd (concat blocks')) ->
  prefix_ok f blocks -> prefix_ok f blocks' ->
  gk_seq f blocks = inr Fs -> gk_seq f blocks' = inr Fs' -> Fs' = Fs.
Proof.
  intros Hf Hng P A N1 G1 N2 G2 P1 P2 S1 S2.
  pose proof (gk_partition f Hf Hng blocks Fs N1 G1 P1 S1) as O1.
  pose proof (gk_partition f Hf Hng blocks' Fs' N2 G2 P2 S2) as O2.
  unfold one_call in *. pose proof (gk_core_perm f _ _ _ P A O1) as O1'. congruence.
Qed.

(* bookkeeping: marking URIs Applied call after call = marking them all at once, in any order *)
Lemma set_applied_comm st u v : set_applied (set_applied st u) v = set_applied (set_applied st v) u.
Proof.
  unfold set_applied. rewrite !map_map. apply map_ext. intros [k s]. cbn.
  destruct (Z.eqb_spec k u); destruct (Z.eqb_spec k v); cbn;
    repeat (match goal with |- context [?a =? ?b] => destruct (Z.eqb_spec a b) end); try reflexivity; try congruence.
Qed.
Lemma statuses_perm l l' : Permutation l l' -> forall st : statuses,
  fold_left (fun s (i : pinfo) => set_applied s (pi_uri i)) l st = fold_left (fun s i => set_applied s (pi_uri i)) l' st.
Proof.
  induction 1; intros st; cbn [fold_left]; auto.
  - now rewrite set_applied_comm.
  - now rewrite IHPermutation1.
Qed.
Lemma statuses_partition (blocks : list (list pinfo)) : forall st : statuses,
  fold_left (fun s b => fold_left (fun s (i : pinfo) => set_applied s (pi_uri i)) b s) blocks st =
  fold_left (fun s i => set_applied s (pi_uri i)) (concat blocks) st.
Proof.
  induction blocks as [|b r IH]; intros st; [reflexivity|]. cbn [fold_left concat]. rewrite fold_left_app. apply IH.
Qed.

(* ---------- glyf short-loca overflow: an error, hence nothing is changed ---------- *)
Lemma poa_overflow_is_error views t offs chk data T e_off maxgid m total0 :
  dedup views t = inr m ->
  retained_total (keep_from 0 (map fst m) maxgid) offs e_off 0 = inr total0 ->
  ot_max T < fold_left (fun a gd => a + (len (snd gd) + len (snd gd) mod ot_div T)) m total0 ->
  patch_offset_array_gen views t offs chk data T [T] e_off maxgid = inl (3, 2).
Proof.
  intros D R H. unfold patch_offset_array_gen. rewrite D, R. cbn [bind]. unfold choose_type.
  destruct (Z.gtb_spec (fold_left (fun a gd => a + (len (snd gd) + len (snd gd) mod ot_div T)) m total0) (ot_max T)); [|lia].
  cbn [find]. destruct (Z.leb_spec (fold_left (fun a gd => a + (len (snd gd) + len (snd gd) mod ot_div T)) m total0) (ot_max T)); [lia|].
  reflexivity.
Qed.

(* glyf/loca never changes its offset width: when the patched glyf data (replacement data padded to even
   length + retained data) exceeds what the font's loca format can address the application fails with
   SerializationError(OFFSET_OVERFLOW) ... *)
Lemma glyf_overflow_is_error f views maxgid glyf T offs m total0 :
  lookup f T_glyf = Some glyf -> read_loca f = Some (T, offs) ->
  dedup views T_glyf = inr m ->
  retained_total (keep_from 0 (map fst m) maxgid) offs (6, 10) 0 = inr total0 ->
  ot_max T < fold_left (fun a gd => a + (len (snd gd) + len (snd gd) mod ot_div T)) m total0 ->
  patch_glyf f views maxgid = inl (3, 2).
Proof.
  intros Lg RL D R H. unfold patch_glyf. rewrite Lg, RL. unfold patch_offset_array.
  now rewrite (poa_overflow_is_error _ _ _ _ _ _ _ _ _ _ D R H).
Qed.

(* ... and a failing glyf branch fails the whole application: no font is produced *)
Lemma gk_core_glyf_error f infos views mx ng e :
  lookup f T_maxp = Some mx -> uN_at 2 mx 4 = Some ng -> (ng =? 0) = false ->
  forallb (fun v => strictly_ascending (gp_tables v)) views = true ->
  lists_tag views T_CFF = false -> lists_tag views T_CFF2 = false -> lists_tag views T_glyf = true ->
  patch_glyf f views (ng - 1) = inl e -> gk_core f infos views = inl e.
Proof.
  intros Lm Un Ng Fa C1 C2 G PG. unfold gk_core. rewrite Lm, Un. cbn [bind]. rewrite Ng, Fa. cbn [negb].
  unfold handlers. cbn [run_handlers]. rewrite C1, C2, G, PG. reflexivity.
Qed.

(* ---------- the loca written back has the width head.indexToLocFormat announces ---------- *)
Lemma loca_width_matches_head f infos views F T offs :
  gm_ok f -> glyf_only views -> gids_nonneg views ->
  (forall mx ng, lookup f T_maxp = Some mx -> uN_at 2 mx 4 = Some ng -> 0 <= ng) ->
  gk_core f infos views = inr F -> lists_tag views T_glyf = true -> read_loca f = Some (T, offs) ->
  lookup F T_head = lookup f T_head /\
  exists os ng mx, lookup f T_maxp = Some mx /\ uN_at 2 mx 4 = Some ng /\
    read_loca F = Some (T, os) /\ len os = ng + 1 /\ ascending os = true /\
    lookup F T_loca = Some (encode_offsets T os).
Proof.
  intros Hf Hgo Hnn Hng H G RL.
  destruct (gk_core_shape _ _ _ _ Hf Hgo H) as [mx [ng [a [b [Lm [Un [Ng [_ [_ [_ [_ [_ [_ GG]]]]]]]]]]]]].
  rewrite G in GG. destruct GG as [ds [enc [PG [Gg Gl]]]].
  pose proof (gk_core_rest _ _ _ _ Hf Hgo H T_head) as Rh.
  assert (Eh : lookup F T_head = lookup f T_head) by (apply Rh; discriminate).
  split; [exact Eh|].
  destruct (patch_glyf_inv _ _ _ _ PG) as [glyf [T0 [offs0 [os [ds' [Lg [RL' [PA E]]]]]]]].
  inversion E; subst ds' enc. rewrite RL in RL'. inversion RL'; subst T0 offs0.
  assert (Hmg : 0 <= ng - 1) by (apply Z.eqb_neq in Ng; specialize (Hng _ _ Lm Un); lia).
  destruct (read_loca_inv _ _ _ RL) as [h [fmt [Lh [Hl [Uf [ET Hdiv]]]]]].
  assert (HT : T = ot_short \/ T = ot_long) by (rewrite ET; destruct (fmt =? 1); auto).
  destruct (poa_inv _ _ _ _ _ _ _ _ _ _ _ PA Hmg) as [m [tot [D [_ [_ [_ B]]]]]].
  pose proof (dedup_nonneg _ _ _ Hnn D) as Nm. specialize (B Nm).
  pose proof (build_good _ _ _ _ _ _ _ _ B (dedup_ok _ _ _ D) Nm HT Hdiv) as Good.
  destruct (poa_offsets _ _ _ _ _ _ _ _ _ _ _ PA Hmg) as [Asc [Ln _]].
  { intros m' D'. eapply dedup_nonneg; eauto. }
  exists os, ng, mx. repeat split; auto; [|lia].
  eapply (read_loca_rebuilt F h fmt); eauto. rewrite Eh. exact Lh.
Qed.

(* ---------- offset width and the order of calls ---------- *)
(* The width decision of successive calls: when the data size after the first call is not larger than
   after the second (growth-only patches: every intermediate total <= the final total) deciding twice gives
   the same type as deciding once — widening is then independent of order and grouping. *)
Lemma choose_type_growth_only T avail total1 total2 : total1 <= total2 ->
  (let? T1 := choose_type T avail total1 in choose_type T1 avail total2) =
  (let? _ := choose_type T avail total1 in choose_type T avail total2).
Proof.
  intros Hle. unfold choose_type at 1 3.
  destruct (Z.gtb_spec total1 (ot_max T)) as [H1|H1]; [|reflexivity].
  destruct (find (fun c => total1 <=? ot_max c) avail) as [T1|] eqn:F1; cbn [bind]; [|reflexivity].
  unfold choose_type.
  destruct (Z.gtb_spec total2 (ot_max T)) as [H2|H2]; [|lia].
  destruct (Z.gtb_spec total2 (ot_max T1)) as [H3|H3]; [reflexivity|].
  (* T1 still fits: it is also the first type that fits total2 *)
  clear H1 H2. induction avail as [|c r IH]; [discriminate|]. cbn [find] in *.
  destruct (Z.leb_spec total1 (ot_max c)).
  - inversion F1; subst c. destruct (Z.leb_spec total2 (ot_max T1)); [reflexivity | lia].
  - destruct (Z.leb_spec total2 (ot_max c)); [lia|]. now apply IH.
Qed.
