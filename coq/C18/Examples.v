(* C18 — non-vacuity examples *)
From Coq Require Import ZArith List Bool Permutation Lia.
From FV Require Import Lib.RustInt C18.Model C18.Proofs.
Import ListNotations.
Open Scope Z_scope.

(* a real correspondence case (two glyph keyed patches on a glyf/loca font): the model accepts it,
   applies both patches and flips both statuses *)
Definition ex_ok : case_ty := ([(1229345824, [2; 0; 0; 0; 0; 0; 0; 0; 1; 0; 0; 0; 2; 0; 0; 0; 3; 0; 0; 0; 4; 3; 0; 0; 2; 0; 0; 0; 43; 0; 0; 0; 0; 0; 8; 102; 111; 111; 47; 123; 105; 100; 125; 16; 13; 3; 49; 16; 13; 3; 49]); (1229345880, [2; 0; 0; 0; 0; 0; 0; 0; 7; 0; 0; 0; 8; 0; 0; 0; 9; 0; 0; 0; 10; 3; 0; 0; 2; 0; 0; 0; 43; 0; 0; 0; 0; 0; 8; 102; 112; 112; 47; 123; 105; 100; 125; 16; 13; 3; 49; 16; 13; 3; 49]); (1735162214, [238; 238; 146; 174; 129; 129; 153; 161; 221; 221]); (1751474532, [0; 1; 0; 0; 0; 0; 0; 0; 0; 0; 0; 0; 95; 15; 60; 245; 0; 0; 3; 232; 0; 0; 0; 0; 0; 0; 0; 0; 0; 0; 0; 0; 0; 0; 0; 0; 0; 0; 0; 0; 0; 0; 0; 0; 0; 0; 0; 0; 0; 0; 0; 0; 0; 0]); (1819239265, [0; 1; 0; 2; 0; 2; 0; 4; 0; 4]); (1835104368, [0; 0; 80; 0; 0; 4]); (1952539185, [97; 98; 99; 100; 101; 102; 10])], None, [(0, 0, [0; 0; 0; 1; 0; 0; 0; 2; 0; 0; 0; 3; 0; 0; 0; 4], 350); (1, 0, [0; 0; 0; 1; 0; 0; 0; 2; 0; 0; 0; 3; 0; 0; 0; 4], 382); (2, 1, [0; 0; 0; 7; 0; 0; 0; 8; 0; 0; 0; 9; 0; 0; 0; 10], 350); (3, 1, [0; 0; 0; 7; 0; 0; 0; 8; 0; 0; 0; 9; 0; 0; 0; 10], 382)], [(0, (Some [105; 102; 103; 107; 0; 0; 0; 0; 0; 0; 0; 0; 1; 0; 0; 0; 2; 0; 0; 0; 3; 0; 0; 0; 4; 0; 0; 0; 30; 0; 0; 0; 2; 1; 0; 1; 0; 2; 103; 108; 121; 102; 0; 0; 0; 25; 0; 0; 0; 27; 0; 0; 0; 30; 32; 33; 48; 49; 50])); (1, (Some [105; 102; 103; 107; 0; 0; 0; 0; 0; 0; 0; 0; 1; 0; 0; 0; 2; 0; 0; 0; 3; 0; 0; 0; 4; 0; 0; 0; 38; 0; 0; 0; 3; 1; 0; 0; 0; 1; 0; 2; 103; 108; 121; 102; 0; 0; 0; 31; 0; 0; 0; 33; 0; 0; 0; 35; 0; 0; 0; 38; 16; 17; 32; 33; 48; 49; 50])); (2, (Some [105; 102; 103; 107; 0; 0; 0; 0; 0; 0; 0; 0; 7; 0; 0; 0; 8; 0; 0; 0; 9; 0; 0; 0; 10; 0; 0; 0; 22; 0; 0; 0; 1; 1; 0; 2; 103; 108; 121; 102; 0; 0; 0; 19; 0; 0; 0; 22; 48; 49; 50])); (3, (Some [105; 102; 103; 107; 0; 0; 0; 0; 0; 0; 0; 0; 7; 0; 0; 0; 8; 0; 0; 0; 9; 0; 0; 0; 10; 0; 0; 0; 29; 0; 0; 0; 2; 1; 0; 2; 0; 3; 103; 108; 121; 102; 0; 0; 0; 25; 0; 0; 0; 28; 0; 0; 0; 29; 48; 49; 50; 64]))], (-1, 0), (0, 0), [(1229345824, [2; 0; 0; 0; 0; 0; 0; 0; 1; 0; 0; 0; 2; 0; 0; 0; 3; 0; 0; 0; 4; 3; 0; 0; 2; 0; 0; 0; 43; 0; 0; 0; 0; 0; 8; 102; 111; 111; 47; 123; 105; 100; 125; 80; 13; 3; 49; 80; 13; 3; 49]); (1229345880, [2; 0; 0; 0; 0; 0; 0; 0; 7; 0; 0; 0; 8; 0; 0; 0; 9; 0; 0; 0; 10; 3; 0; 0; 2; 0; 0; 0; 43; 0; 0; 0; 0; 0; 8; 102; 112; 112; 47; 123; 105; 100; 125; 80; 13; 3; 49; 80; 13; 3; 49]); (1735162214, [16; 17; 32; 33; 48; 49; 50; 0; 64; 0]); (1751474532, [0; 1; 0; 0; 0; 0; 0; 0; 0; 0; 0; 0; 95; 15; 60; 245; 0; 0; 3; 232; 0; 0; 0; 0; 0; 0; 0; 0; 0; 0; 0; 0; 0; 0; 0; 0; 0; 0; 0; 0; 0; 0; 0; 0; 0; 0; 0; 0; 0; 0; 0; 0; 0; 0]); (1819239265, [0; 0; 0; 1; 0; 2; 0; 4; 0; 5]); (1835104368, [0; 0; 80; 0; 0; 4]); (1952539185, [97; 98; 99; 100; 101; 102; 10])], [(0, true); (1, true); (2, true); (3, true)]).
Example c18_case_ok_nonvacuous :
  check_case ex_ok = true /\
  (let '(f, inv, noninv, st, (fa, kind), _, _, _) := ex_ok in
   match fst (apply_next (test_dec fa kind) f inv noninv st) with inr _ => True | inl _ => False end).
Proof. split; [vm_compute; reflexivity | vm_compute; exact I]. Qed.

(* a decoder failure at call k: error, and (hypothesis of c18_error_leaves_bookkeeping) statuses unchanged *)
Definition ex_err : case_ty := ([(1229345824, [2; 0; 0; 0; 0; 0; 0; 0; 1; 0; 0; 0; 2; 0; 0; 0; 3; 0; 0; 0; 4; 3; 0; 0; 2; 0; 0; 0; 43; 0; 0; 0; 0; 0; 8; 102; 111; 111; 47; 123; 105; 100; 125; 16; 13; 3; 49; 16; 13; 3; 49]); (1229345880, [2; 0; 0; 0; 0; 0; 0; 0; 7; 0; 0; 0; 8; 0; 0; 0; 9; 0; 0; 0; 10; 3; 0; 0; 2; 0; 0; 0; 43; 0; 0; 0; 0; 0; 8; 102; 112; 112; 47; 123; 105; 100; 125; 16; 13; 3; 49; 16; 13; 3; 49]); (1735162214, [238; 238; 146; 174; 129; 129; 153; 161; 221; 221]); (1751474532, [0; 1; 0; 0; 0; 0; 0; 0; 0; 0; 0; 0; 95; 15; 60; 245; 0; 0; 3; 232; 0; 0; 0; 0; 0; 0; 0; 0; 0; 0; 0; 0; 0; 0; 0; 0; 0; 0; 0; 0; 0; 0; 0; 0; 0; 0; 0; 0; 0; 0; 0; 0; 0; 0]); (1819239265, [0; 1; 0; 2; 0; 2; 0; 4; 0; 4]); (1835104368, [0; 0; 80; 0; 0; 4]); (1952539185, [97; 98; 99; 100; 101; 102; 10])], None, [(0, 0, [0; 0; 0; 1; 0; 0; 0; 2; 0; 0; 0; 3; 0; 0; 0; 4], 350); (1, 0, [0; 0; 0; 1; 0; 0; 0; 2; 0; 0; 0; 3; 0; 0; 0; 4], 382); (2, 1, [0; 0; 0; 7; 0; 0; 0; 8; 0; 0; 0; 9; 0; 0; 0; 10], 350); (3, 1, [0; 0; 0; 7; 0; 0; 0; 8; 0; 0; 0; 9; 0; 0; 0; 10], 382)], [(0, (Some [105; 102; 103; 107; 0; 0; 0; 0; 0; 0; 0; 0; 1; 0; 0; 0; 2; 0; 0; 0; 3; 0; 0; 0; 4; 0; 0; 0; 30; 0; 0; 0; 2; 1; 0; 1; 0; 2; 103; 108; 121; 102; 0; 0; 0; 25; 0; 0; 0; 27; 0; 0; 0; 30; 32; 33; 48; 49; 50])); (1, (Some [105; 102; 103; 107; 0; 0; 0; 0; 0; 0; 0; 0; 1; 0; 0; 0; 2; 0; 0; 0; 3; 0; 0; 0; 4; 0; 0; 0; 38; 0; 0; 0; 3; 1; 0; 0; 0; 1; 0; 2; 103; 108; 121; 102; 0; 0; 0; 31; 0; 0; 0; 33; 0; 0; 0; 35; 0; 0; 0; 38; 16; 17; 32; 33; 48; 49; 50])); (2, (Some [105; 102; 103; 107; 0; 0; 0; 0; 0; 0; 0; 0; 7; 0; 0; 0; 8; 0; 0; 0; 9; 0; 0; 0; 10; 0; 0; 0; 22; 0; 0; 0; 1; 1; 0; 2; 103; 108; 121; 102; 0; 0; 0; 19; 0; 0; 0; 22; 48; 49; 50])); (3, (Some [105; 102; 103; 107; 0; 0; 0; 0; 0; 0; 0; 0; 7; 0; 0; 0; 8; 0; 0; 0; 9; 0; 0; 0; 10; 0; 0; 0; 29; 0; 0; 0; 2; 1; 0; 2; 0; 3; 103; 108; 121; 102; 0; 0; 0; 25; 0; 0; 0; 28; 0; 0; 0; 29; 48; 49; 50; 64]))], (0, 1), (6, 11), [], [(0, false); (1, false); (2, false); (3, false)]).
Example c18_case_err_nonvacuous :
  check_case ex_err = true /\
  (let '(f, inv, noninv, st, (fa, kind), _, _, _) := ex_err in
   match apply_next (test_dec fa kind) f inv noninv st with
   | (inl _, st') => st' = st | (inr _, _) => False end).
Proof. split; [vm_compute; reflexivity | vm_compute; reflexivity]. Qed.

(* the hypotheses of c18_order_independent are satisfiable by two overlapping, agreeing patches *)
Definition v1 := {| gp_gids := [1]; gp_tables := [T_glyf]; gp_offs := [1; 3]; gp_raw := [0; 7; 8; 9] |}.
Definition v2 := {| gp_gids := [1; 2]; gp_tables := [T_glyf]; gp_offs := [1; 3; 4]; gp_raw := [0; 7; 8; 9] |}.
Example c18_views_agree_nonvacuous : views_agree T_glyf [v1; v2] /\ dedup [v1; v2] T_glyf = inr [(1, [7; 8]); (2, [9])].
Proof.
  split; [|vm_compute; reflexivity].
  intros items H. vm_compute in H. inversion H; subst. unfold items_agree. cbn.
  intros g d1 d2 [E1|[E1|[E1|[]]]] [E2|[E2|[E2|[]]]]; congruence.
Qed.

(* the builder on a short-offset array: glyph 1 replaced by 3 bytes (padded to 4), others kept *)
Example c18_builder_nonvacuous :
  patch_offset_array [{| gp_gids := [1]; gp_tables := [T_glyf]; gp_offs := [1; 4]; gp_raw := [0; 7; 8; 9] |}]
    T_glyf [0; 2; 2; 6] [1; 2; 3; 4; 5; 6] ot_short [ot_short] (6, 10) 2
  = inr (ot_short, [0; 2; 6; 10], [1; 2; 7; 8; 9; 0; 3; 4; 5; 6]).
Proof. vm_compute. reflexivity. Qed.

(* disagreeing patches: the result depends on the order (why c18_order_independent needs views_agree) *)
Definition w1 := {| gp_gids := [1]; gp_tables := [T_glyf]; gp_offs := [1; 3]; gp_raw := [0; 7; 8; 9] |}.
Definition w2 := {| gp_gids := [1]; gp_tables := [T_glyf]; gp_offs := [2; 4]; gp_raw := [0; 7; 8; 9] |}.
Example c18_order_matters_when_disagreeing : dedup [w1; w2] T_glyf <> dedup [w2; w1] T_glyf.
Proof. vm_compute. discriminate. Qed.

(* the hypotheses of c18_grouping_independent are satisfiable: a 3-glyph short-loca font, two agreeing,
   overlapping patches; one call and two calls all succeed (and, by the theorem, agree) *)
Definition gf : font :=
  [(T_IFT, repeat 0 32); (T_glyf, [1; 2; 3; 4]); (T_head, repeat 0 54); (T_loca, [0; 0; 0; 1; 0; 2; 0; 2]);
   (T_maxp, [0; 0; 80; 0; 0; 3])].
Definition gi1 : pinfo := (0, 0, [], 6).
Definition gi2 : pinfo := (1, 0, [], 14).
Example c18_grouping_nonvacuous :
  gm_ok gf /\ gids_nonneg ([v1] ++ [v2]) /\ views_agree T_glyf ([v1] ++ [v2]) /\
  lists_tag ([v1] ++ [v2]) T_gvar = false /\
  (exists F12 F1 F2, gk_core gf ([gi1] ++ [gi2]) ([v1] ++ [v2]) = inr F12 /\ gk_core gf [gi1] [v1] = inr F1 /\
                     gk_core F1 [gi2] [v2] = inr F2 /\ F2 = F12 /\ lookup F12 T_glyf = Some [1; 2; 7; 8; 9; 0]).
Proof.
  split; [repeat constructor; cbn; lia|]. split; [repeat constructor; cbn; lia|].
  split; [apply c18_views_agree_nonvacuous|]. split; [reflexivity|].
  eexists; eexists; eexists. split; [vm_compute; reflexivity|]. split; [vm_compute; reflexivity|].
  split; [vm_compute; reflexivity|]. split; reflexivity.
Qed.
