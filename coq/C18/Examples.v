(* C18 — non-vacuity examples *)
From Coq Require Import ZArith List Bool Permutation Lia.
From FV Require Import Lib.RustInt C18.Model C18.Proofs.
Import ListNotations.
Open Scope Z_scope.

(* a real correspondence case (two glyph keyed patches on a glyf/loca font): the model accepts it,
   applies both patches and flips both statuses *)
Definition ex_ok : case_ty := ([(1229345824, [2; 0; 0; 0; 0; 0; 0; 0; 1; 0; 0; 0; 2; 0; 0; 0; 3; 0; 0; 0; 4; 3; 0; 0; 2; 0; 0; 0; 43; 0; 0; 0; 0; 0; 8; 102; 111; 111; 47; 123; 105; 100; 125; 16; 13; 3; 49; 16; 13; 3; 49]); (1229345880, [2; 0; 0; 0; 0; 0; 0; 0; 7; 0; 0; 0; 8; 0; 0; 0; 9; 0; 0; 0; 10; 3; 0; 0; 2; 0; 0; 0; 43; 0; 0; 0; 0; 0; 8; 102; 112; 112; 47; 123; 105; 100; 125; 16; 13; 3; 49; 16; 13; 3; 49]); (1735162214, [238; 238; 146; 174; 129; 129; 153; 161; 221; 221]); (1751474532, [0; 1; 0; 0; 0; 0; 0; 0; 0; 0; 0; 0; 95; 15; 60; 245; 0; 0; 3; 232; 0; 0; 0; 0; 0; 0; 0; 0; 0; 0; 0; 0; 0; 0; 0; 0; 0; 0; 0; 0; 0; 0; 0; 0; 0; 0; 0; 0; 0; 0; 0; 0; 0; 0]); (1819239265, [0; 1; 0; 2; 0; 2; 0; 4; 0; 4]); (1835104368, [0; 0; 80; 0; 0; 4]); (1952539185, [97; 98; 99; 100; 101; 102; 10])], None, [(0, 0, [0; 0; 0; 1; 0; 0; 0; 2; 0; 0; 0; 3; 0; 0; 0; 4], 350); (1, 0, [0; 0; 0; 1; 0; 0; 0; 2; 0; 0; 0; 3; 0; 0; 0; 4], 382); (2, 1, [0; 0; 0; 7; 0; 0; 0; 8; 0; 0; 0; 9; 0; 0; 0; 10], 350); (3, 1, [0; 0; 0; 7; 0; 0; 0; 8; 0; 0; 0; 9; 0; 0; 0; 10], 382)], [(0, (Some [105; 102; 103; 107; 0; 0; 0; 0; 0; 0; 0; 0; 1; 0; 0; 0; 2; 0; 0; 0; 3; 0; 0; 0; 4; 0; 0; 0; 30; 0; 0; 0; 2; 1; 0; 1; 0; 2; 103; 108; 121; 102; 0; 0; 0; 25; 0; 0; 0; 27; 0; 0; 0; 30; 32; 33; 48; 49; 50])); (1, (Some [105; 102; 103; 107; 0; 0; 0; 0; 0; 0; 0; 0; 1; 0; 0; 0; 2; 0; 0; 0; 3; 0; 0; 0; 4; 0; 0; 0; 38; 0; 0; 0; 3; 1; 0; 0; 0; 1; 0; 2; 103; 108; 121; 102; 0; 0; 0; 31; 0; 0; 0; 33; 0; 0; 0; 35; 0; 0; 0; 38; 16; 17; 32; 33; 48; 49; 50])); (2, (Some [105; 102; 103; 107; 0; 0; 0; 0; 0; 0; 0; 0; 7; 0; 0; 0; 8; 0; 0; 0; 9; 0; 0; 0; 10; 0; 0; 0; 22; 0; 0; 0; 1; 1; 0; 2; 103; 108; 121; 102; 0; 0; 0; 19; 0; 0; 0; 22; 48; 49; 50])); (3, (Some [105; 102; 103; 107; 0; 0; 0; 0; 0; 0; 0; 0; 7; 0; 0; 0; 8; 0; 0; 0; 9; 0; 0; 0; 10; 0; 0; 0; 29; 0; 0; 0; 2; 1; 0; 2; 0; 3; 103; 108; 121; 102; 0; 0; 0; 25; 0; 0; 0; 28; 0; 0; 0; 29; 48; 49; 50; 64]))], (-1, 0), (0, 0), [(1229345824, [2; 0; 0; 0; 0; 0; 0; 0; 1; 0; 0; 0; 2; 0; 0; 0; 3; 0; 0; 0; 4; 3; 0; 0; 2; 0; 0; 0; 43; 0; 0; 0; 0; 0; 8; 102; 111; 111; 47; 123; 105; 100; 125; 80; 13; 3; 49; 80; 13; 3; 49]); (1229345880, [2; 0; 0; 0; 0; 0; 0; 0; 7; 0; 0; 0; 8; 0; 0; 0; 9; 0; 0; 0; 10; 3; 0; 0; 2; 0; 0; 0; 43; 0; 0; 0; 0; 0; 8; 102; 112; 112; 47; 123; 105; 100; 125; 80; 13; 3; 49; 80; 13; 3; 49]); (1735162214, [16; 17; 32; 33; 48; 49; 50; 0; 64; 0]); (1751474532, [0; 1; 0; 0; 0; 0; 0; 0; 0; 0; 0; 0; 95; 15; 60; 245; 0; 0; 3; 232; 0; 0; 0; 0; 0; 0; 0; 0; 0; 0; 0; 0; 0; 0; 0; 0; 0; 0; 0; 0; 0; 0; 0; 0; 0; 0; 0; 0; 0; 0; 0; 0; 0; 0]); (1819239265, [0; 0; 0; 1; 0; 2; 0; 4; 0; 5]); (1835104368, [0; 0; 80; 0; 0; 4]); (1952539185, [97; 98; 99; 100; 101; 102; 10])], [(0, true); (1, true); (2, true); (3, true)]).
Example c18_case_ok_nonvacuous :
  check_case ex_ok = true /\
  (let '(f, inv, noninv, st, (fa, kind), _, _, _) := ex_ok in
   match fst (apply_next (test_dec fa kind) f inv noninv st) with inr _ => True | inl _ => False end).
Proof. split; [vm_compute; reflexivity | vm_compute; exact I]. Qed.

(* a decoder failure at call k: error, and (hypothesis of c18_error_leaves_bookkeeping) statuses unchanged *)
Definition ex_err : case_ty := ([(1229345824, [2; 0; 0; 0; 0; 0; 0; 0; 1; 0; 0; 0; 2; 0; 0; 0; 3; 0; 0; 0; 4; 3; 0; 0; 2; 0; 0; 0; 43; 0; 0; 0; 0; 0; 8; 102; 111; 111; 47; 123; 105; 100; 125; 16; 13; 3; 49; 16; 13; 3; 49]); (1229345880, [2; 0; 0; 0; 0; 0; 0; 0; 7; 0; 0; 0; 8; 0; 0; 0; 9; 0; 0; 0; 10; 3; 0; 0; 2; 0; 0; 0; 43; 0; 0; 0; 0; 0; 8; 102; 112; 112; 47; 123; 105; 100; 125; 16; 13; 3; 49; 16; 13; 3; 49]); (1735162214, [238; 238; 146; 174; 129; 129; 153; 161; 221; 221]); (1751474532, [0; 1; 0; 0; 0; 0; 0; 0; 0; 0; 0; 0; 95; 15; 60; 245; 0; 0; 3; 232; 0; 0; 0; 0; 0; 0; 0; 0; 0; 0; 0; 0; 0; 0; 0; 0; 0; 0; 0; 0; 0; 0; 0; 0; 0; 0; 0; 0; 0; 0; 0; 0; 0; 0]); (1819239265, [0; 1; 0; 2; 0; 2; 0; 4; 0; 4]); (1835104368, [0; 0; 80; 0; 0; 4]); (1952539185, [97; 98; 99; 100; 101; 102; 10])], None, [(0, 0, [0; 0; 0; 1; 0; 0; 0; 2; 0; 0; 0; 3; 0; 0; 0; 4], 350); (1, 0, [0; 0; 0; 1; 0; 0; 0; 2; 0; 0; 0; 3; 0; 0; 0; 4], 382); (2, 1, [0; 0; 0; 7; 0; 0; 0; 8; 0; 0; 0; 9; 0; 0; 0; 10], 350); (3, 1, [0; 0; 0; 7; 0; 0; 0; 8; 0; 0; 0; 9; 0; 0; 0; 10], 382)], [(0, (Some [105; 102; 103; 107; 0; 0; 0; 0; 0; 0; 0; 0; 1; 0; 0; 0; 2; 0; 0; 0; 3; 0; 0; 0; 4; 0; 0; 0; 30; 0; 0; 0; 2; 1; 0; 1; 0; 2; 103; 108; 121; 102; 0; 0; 0; 25; 0; 0; 0; 27; 0; 0; 0; 30; 32; 33; 48; 49; 50])); (1, (Some [105; 102; 103; 107; 0; 0; 0; 0; 0; 0; 0; 0; 1; 0; 0; 0; 2; 0; 0; 0; 3; 0; 0; 0; 4; 0; 0; 0; 38; 0; 0; 0; 3; 1; 0; 0; 0; 1; 0; 2; 103; 108; 121; 102; 0; 0; 0; 31; 0; 0; 0; 33; 0; 0; 0; 35; 0; 0; 0; 38; 16; 17; 32; 33; 48; 49; 50])); (2, (Some [105; 102; 103; 107; 0; 0; 0; 0; 0; 0; 0; 0; 7; 0; 0; 0; 8; 0; 0; 0; 9; 0; 0; 0; 10; 0; 0; 0; 22; 0; 0; 0; 1; 1; 0; 2; 103; 108; 121; 102; 0; 0; 0; 19; 0; 0; 0; 22; 48; 49; 50])); (3, (Some [105; 102; 103; 107; 0; 0; 0; 0; 0; 0; 0; 0; 7; 0; 0; 0; 8; 0; 0; 0; 9; 0; 0; 0; 10; 0; 0; 0; 29; 0; 0; 0; 2; 1; 0; 2; 0; 3; 103; 108; 121; 102; 0; 0; 0; 25; 0; 0; 0; 28; 0; 0; 0; 29; 48; 49; 50; 64]))], (0, 1), (6, 11), [], [(0, false); (1, false); (2, false); (3, false)]).
Example c18_case_err_nonvacuous :
  check_case ex_err = true /\
  (let '(f, inv, noninv, st, (fa, kind), _, _, _) := ex_err in
   match apply_next (test_dec fa kind) f inv noninv st with
   | (inl _, st') => st' = st | (inr _, _) => False end).
Proof. split; [vm_compute; reflexivity | vm_compute; reflexivity]. Qed.

(* the hypotheses of c18_order_independent are satisfiable by two overlapping, agreeing patches *)
Definition v1 := {| gp_gids := [1]; gp_tables := [T_glyf]; gp_offs := [1; 3]; gp_raw := [0; 7; 8; 9] |}.
Definition v2 := {| gp_gids := [1; 2]; gp_tables := [T_glyf]; gp_offs := [1; 3; 4]; gp_raw := [0; 7; 8; 9] |}.
Example c18_views_agree_nonvacuous : views_agree T_glyf [v1; v2] /\ dedup [v1; v2] T_glyf = inr [(1, [7; 8]); (2, [9])].
Proof.
  split; [|vm_compute; reflexivity].
  intros items H. vm_compute in H. inversion H; subst. unfold items_agree. cbn.
  intros g d1 d2 [E1|[E1|[E1|[]]]] [E2|[E2|[E2|[]]]]; congruence.
Qed.

(* the builder on a short-offset array: glyph 1 replaced by 3 bytes (padded to 4), others kept *)
Example c18_builder_nonvacuous :
  patch_offset_array [{| gp_gids := [1]; gp_tables := [T_glyf]; gp_offs := [1; 4]; gp_raw := [0; 7; 8; 9] |}]
    T_glyf [0; 2; 2; 6] [1; 2; 3; 4; 5; 6] ot_short [ot_short] (6, 10) 2
  = inr (ot_short, [0; 2; 6; 10], [1; 2; 7; 8; 9; 0; 3; 4; 5; 6]).
Proof. vm_compute. reflexivity. Qed.

(* disagreeing patches: the result depends on the order (why c18_order_independent needs views_agree) *)
Definition w1 := {| gp_gids := [1]; gp_tables := [T_glyf]; gp_offs := [1; 3]; gp_raw := [0; 7; 8; 9] |}.
Definition w2 := {| gp_gids := [1]; gp_tables := [T_glyf]; gp_offs := [2; 4]; gp_raw := [0; 7; 8; 9] |}.
Example c18_order_matters_when_disagreeing : dedup [w1; w2] T_glyf <> dedup [w2; w1] T_glyf.
Proof. vm_compute. discriminate. Qed.

(* the hypotheses of c18_grouping_independent are satisfiable: a 3-glyph short-loca font, two agreeing,
   overlapping patches; one call and two calls all succeed (and, by the theorem, agree) *)
Definition gf : font :=
  [(T_IFT, repeat 0 32); (T_glyf, [1; 2; 3; 4]); (T_head, repeat 0 54); (T_loca, [0; 0; 0; 1; 0; 2; 0; 2]);
   (T_maxp, [0; 0; 80; 0; 0; 3])].
Definition gi1 : pinfo := (0, 0, [], 6).
Definition gi2 : pinfo := (1, 0, [], 14).
Example c18_grouping_nonvacuous :
  gm_ok gf /\ gids_nonneg ([v1] ++ [v2]) /\ views_agree T_glyf ([v1] ++ [v2]) /\
  glyf_only ([v1] ++ [v2]) /\
  (exists F12 F1 F2, gk_core gf ([gi1] ++ [gi2]) ([v1] ++ [v2]) = inr F12 /\ gk_core gf [gi1] [v1] = inr F1 /\
                     gk_core F1 [gi2] [v2] = inr F2 /\ F2 = F12 /\ lookup F12 T_glyf = Some [1; 2; 7; 8; 9; 0]).
Proof.
  split; [repeat constructor; cbn; lia|]. split; [repeat constructor; cbn; lia|].
  split; [apply c18_views_agree_nonvacuous|]. split; [repeat split|].
  eexists; eexists; eexists. split; [vm_compute; reflexivity|]. split; [vm_compute; reflexivity|].
  split; [vm_compute; reflexivity|]. split; reflexivity.
Qed.

(* partition: the hypotheses of c18_partition_independent hold for the two singleton calls above *)
Example c18_partition_nonvacuous :
  prefix_ok gf [[(gi1, v1)]; [(gi2, v2)]] /\
  (exists Fs, gk_seq gf [[(gi1, v1)]; [(gi2, v2)]] = inr Fs /\ one_call gf [[(gi1, v1)]; [(gi2, v2)]] = inr Fs).
Proof.
  split.
  - intros j Hj. destruct j as [|[|[|j]]]; [| | |cbn in Hj; lia].
    + split; [intros items H; vm_compute in H; inversion H; subst; intros g d1 d2 []|eexists; vm_compute; reflexivity].
    + split; [|eexists; vm_compute; reflexivity].
      intros items H. vm_compute in H. inversion H; subst. unfold items_agree. cbn.
      intros g d1 d2 [E1|[]] [E2|[]]; congruence.
    + split; [apply c18_views_agree_nonvacuous | eexists; vm_compute; reflexivity].
  - eexists. split; vm_compute; reflexivity.
Qed.

(* WITHOUT agreement grouping matters: one call keeps the first patch's data for a shared glyph, two calls
   keep the second call's *)
Example c18_grouping_refuted :
  exists F12 F1 F2, gk_core gf [gi1; gi2] [w1; w2] = inr F12 /\ gk_core gf [gi1] [w1] = inr F1 /\
                    gk_core F1 [gi2] [w2] = inr F2 /\ lookup F12 T_glyf <> lookup F2 T_glyf.
Proof.
  eexists; eexists; eexists. split; [vm_compute; reflexivity|]. split; [vm_compute; reflexivity|].
  split; [vm_compute; reflexivity|]. vm_compute. discriminate.
Qed.

(* offset overflow: with a single available offset type whose maximum is exceeded the result is
   SerializationError(OFFSET_OVERFLOW) (a toy type with max 4 stands for short loca's 131070) *)
Example c18_overflow_nonvacuous :
  let T := {| ot_width := 2; ot_div := 2; ot_bias := 0; ot_max := 4 |} in
  dedup [v1] T_glyf = inr [(1, [7; 8])] /\
  retained_total (keep_from 0 [1] 2) [0; 2; 2; 6] (6, 10) 0 = inr 6 /\
  patch_offset_array_gen [v1] T_glyf [0; 2; 2; 6] [0; 2; 2; 6] [1; 2; 3; 4; 5; 6] T [T] (6, 10) 2 = inl (3, 2).
Proof. cbn zeta. repeat split; vm_compute; reflexivity. Qed.

(* CFF offSize widening: 250 bytes of charstrings with 1-byte offsets (max 254) + a 10-byte glyph -> offSize 2 *)
Example c18_cff_widening_nonvacuous :
  match patch_offset_array [{| gp_gids := [0]; gp_tables := [T_CFF]; gp_offs := [13; 23];
                               gp_raw := repeat 0 13 ++ repeat 9 10 |}]
          T_CFF [0; 0; 250] (repeat 7 250) (ot_cff 1) cff_types (2, 1) 1 with
  | inr (T', os, ds) => ot_width T' = 2 /\ os = [0; 10; 260] /\ len ds = 260
  | inl _ => False
  end.
Proof. vm_compute. repeat split; reflexivity. Qed.

(* the CFF behaviour before /repo 6183e73 (finding F-C18-3): the ascending check skipped the last offset, so
   a base INDEX [0; 6; 9; 2] (last offset below the previous one) was accepted and a non-ascending INDEX
   came out: c18_offsets_ascending does NOT hold for the partial check *)
Example c18_cff_last_offset_refuted :
  exists T' os ds,
    patch_offset_array_gen [{| gp_gids := [0]; gp_tables := [T_CFF]; gp_offs := [13; 14]; gp_raw := repeat 0 13 ++ [5] |}]
      T_CFF [0; 1; 9; 2] (firstn 3 [0; 1; 9; 2]) (repeat 7 12) (ot_cff 1) cff_types (2, 1) 2 = inr (T', os, ds) /\
    ascending os = false.
Proof. eexists; eexists; eexists. split; vm_compute; reflexivity. Qed.

(* finding F-C18-4 in the model: CFF offSize 1, glyphs of 200 and 50 bytes; P1: glyph 0 -> 10 bytes,
   P2: glyph 1 -> 60 bytes.  One call: 70 bytes, 1-byte offsets.  P2 then P1: 260 bytes after P2 -> 2-byte
   offsets, and the shrinking P1 afterwards never narrows them: same logical offsets and data, other width *)
Definition wP1 := {| gp_gids := [0]; gp_tables := [T_CFF]; gp_offs := [13; 23]; gp_raw := repeat 0 13 ++ repeat 17 10 |}.
Definition wP2 := {| gp_gids := [1]; gp_tables := [T_CFF]; gp_offs := [13; 73]; gp_raw := repeat 0 13 ++ repeat 34 60 |}.
Example c18_width_order_independent_refuted :
  let base := (repeat 161 200 ++ repeat 178 50) in
  exists T12 os12 ds12 Ta osa dsa Tb osb dsb,
    patch_offset_array [wP1; wP2] T_CFF [0; 200; 250] base (ot_cff 1) cff_types (2, 1) 1 = inr (T12, os12, ds12) /\
    patch_offset_array [wP2] T_CFF [0; 200; 250] base (ot_cff 1) cff_types (2, 1) 1 = inr (Ta, osa, dsa) /\
    patch_offset_array [wP1] T_CFF osa dsa Ta cff_types (2, 1) 1 = inr (Tb, osb, dsb) /\
    os12 = osb /\ ds12 = dsb /\ ot_width T12 = 1 /\ ot_width Tb = 2.
Proof.
  cbn zeta. do 9 eexists. split; [vm_compute; reflexivity|]. split; [vm_compute; reflexivity|].
  split; [vm_compute; reflexivity|]. repeat split; reflexivity.
Qed.

(* a patch written with 16-bit glyph ids and read with the 24-bit flag of ANOTHER patch of the group is
   mis-parsed (other glyph ids / other tables) or rejected — the per-patch flag matters *)
Example c18_wrong_id_width_misparses :
  let p := gp_encode false [1; 2] [T_glyf] [25; 27; 28] [7; 8; 9] in
  (exists v, gp_read p false = inr v /\ gp_gids v = [1; 2] /\ gp_items v T_glyf = inr [(1, [7; 8]); (2, [9])]) /\
  (forall v, gp_read p true = inr v -> gp_gids v <> [1; 2]).
Proof.
  cbn zeta. split.
  - eexists. split; [vm_compute; reflexivity|]. split; vm_compute; reflexivity.
  - intros v H. vm_compute in H. inversion H; subst. cbn. discriminate.
Qed.
