(* C18 — examples *)
From Coq Require Import ZArith List.
From FV Require Import Lib.RustInt C18.Model C18.Proofs.
