(* C18 — lemmas.  The development lives in GkProofs.v (maps, builder specification), Runs.v (the literal
   run-by-run loop refines the specification), GkProofs2.v (dedup, patch_offset_array, permutations, font
   maps, bookkeeping, table keyed), Bits.v, Grouping.v; this file adds statements that combine them. *)
From Coq Require Import ZArith List Bool Lia Permutation.
From FV Require Import Lib.RustInt C18.Model.
From FV Require Export C18.GkProofs C18.Runs C18.GkProofs2 C18.Bits C18.Grouping C18.Partition C18.Codec.
Import ListNotations.
Open Scope Z_scope.

(* the offset type changes only when the new total size does not fit the old one, the chosen type
   is the first available one that represents the total, and every emitted offset fits it *)
Lemma poa_type_widens_only_when_needed views t offs data T avail e_off maxgid T' os ds :
  patch_offset_array views t offs data T avail e_off maxgid = inr (T', os, ds) -> 0 <= maxgid ->
  (forall m, dedup views t = inr m -> Forall (fun gd => 0 <= fst gd) m) ->
  Forall (fun x => off_fits T' x = true) os /\
  exists total,
    (total <= ot_max T /\ T' = T) \/
    (ot_max T < total /\ total <= ot_max T' /\
     exists pre post, avail = pre ++ T' :: post /\ Forall (fun c => ot_max c < total) pre).
Proof.
  intros H Hm Hnn. pose proof H as H0. apply poa_inv in H; [|exact Hm].
  destruct H as [m [total [D [C [_ [_ B]]]]]].
  split; [eapply build_loop_fits; apply B; eauto|]. exists total. now apply choose_type_spec.
Qed.

(* gvar: the rebuilt table is header (flags updated) + encoded offsets, then the unchanged shared tuples,
   then the builder's data *)
Lemma patch_gvar_inv f views maxgid adds :
  patch_gvar f views maxgid = inr adds ->
  exists g axis stc sto gc fl dao T offs T' os ds g',
    lookup f T_gvar = Some g /\ read_gvar g = Some (axis, stc, sto, gc, fl, dao, T, offs) /\
    patch_offset_array views T_gvar (map (fun o => dao + o) offs) g T [ot_short; ot_long] (2, 1) maxgid = inr (T', os, ds) /\
    gvar_assemble g (axis, stc, sto, gc, fl, dao, T, offs) T' os ds = inr g' /\ adds = [(T_gvar, g')].
Proof.
  unfold patch_gvar. destruct (lookup f T_gvar) as [g|] eqn:L; [|discriminate].
  destruct (read_gvar g) as [[[[[[[[ax stc] sto] gc] fl] dao] T] offs]|] eqn:RG; [|discriminate].
  destruct (patch_offset_array _ _ _ _ _ _ _ _) as [?|[[T' os] ds]] eqn:E; cbn [bind]; [discriminate|].
  destruct (gvar_assemble _ _ _ _ _) as [?|g'] eqn:G; cbn [bind]; [discriminate|].
  intros H; inversion H; subst. exists g, ax, stc, sto, gc, fl, dao, T, offs, T', os, ds, g'. repeat split; auto.
Qed.

(* table keyed: a REPLACE entry is decoded without any dictionary — whatever the base font holds *)
Lemma replace_ignores_base dec f fmt offs p F x t fl ml s : NoDup (map fst f) ->
  apply_table_keyed dec f fmt offs p = inr F ->
  tk_first (tk_entries p offs) x = Some (t, fl, ml, s) ->
  Z.testbit fl 1 = false -> Z.testbit fl 0 = true ->
  exists k out, dec k s None ml = inr out /\ lookup F x = Some out.
Proof.
  intros ND H E D R. pose proof (apply_table_keyed_exact dec f fmt offs p F ND H x) as K.
  rewrite E, D, R in K. exact K.
Qed.
(* ... and a diff entry gets exactly the base table as dictionary *)
Lemma diff_uses_base dec f fmt offs p F x t fl ml s : NoDup (map fst f) ->
  apply_table_keyed dec f fmt offs p = inr F ->
  tk_first (tk_entries p offs) x = Some (t, fl, ml, s) ->
  Z.testbit fl 1 = false -> Z.testbit fl 0 = false ->
  exists k out base, lookup f x = Some base /\ dec k s (Some base) ml = inr out /\ lookup F x = Some out.
Proof.
  intros ND H E D R. pose proof H as H0. unfold apply_table_keyed in H0.
  pose proof (apply_table_keyed_exact dec f fmt offs p F ND H x) as K.
  rewrite E, D, R in K. destruct K as [k [out [K1 K2]]].
  destruct (lookup f x) as [base|] eqn:L; [exists k, out, base; auto|].
  (* a diff against a missing base table is rejected: contradiction with success *)
  exfalso. destruct (fmt =? T_iftk); cbn [negb] in H0; [|discriminate].
  destruct (tk_fold dec f (tk_entries p offs) 0 [] []) as [?|[pr fb]] eqn:TF; cbn [bind] in H0; [discriminate|].
  clear - TF E D R L.
  assert (G : forall es k pr0 fb0 r, ~ In x pr0 -> tk_first es x = Some (t, fl, ml, s) ->
              tk_fold dec f es k pr0 fb0 = inr r -> False).
  { induction es as [|[e|[[[t0 fl0] ml0] s0]] es IH]; intros k pr0 fb0 r Hn Hf Hr; cbn in Hf; try discriminate.
    cbn [tk_fold] in Hr. destruct (Z.eqb_spec x t0).
    - inversion Hf; subst. apply memZ_false in Hn. rewrite Hn, D, R, L in Hr. discriminate.
    - destruct (memZ t0 pr0); [eapply IH; eauto|].
      assert (Hn' : ~ In x (t0 :: pr0)) by (intros [K|K]; [congruence | contradiction]).
      destruct (Z.testbit fl0 1); [eapply IH; eauto|].
      destruct (lookup f t0), (Z.testbit fl0 0); try discriminate;
        match type of Hr with context [dec ?a ?b ?c ?d] => destruct (dec a b c d) end; try discriminate; eapply IH; eauto. }
  eapply (G _ 0%nat [] [] _ (fun K => K)); eauto.
Qed.

(* CFF / CFF2: the charstrings INDEX is rebuilt from the builder output: everything before the INDEX is
   copied, count is kept, offSize = width of the chosen type, offsets 1-based, then the data *)
Lemma patch_cff_inv cw tg c2 f views maxgid adds :
  patch_cff cw tg c2 f views maxgid = inr adds ->
  exists cs_off tbl count offsz T' os ds,
    ift_charstrings_offset f c2 = Some cs_off /\ lookup f tg = Some tbl /\
    uN_at cw (skipn (Z.to_nat cs_off) tbl) 0 = Some count /\ uN_at 1 (skipn (Z.to_nat cs_off) tbl) cw = Some offsz /\
    1 <= offsz <= 4 /\ count = maxgid + 1 /\
    patch_offset_array views tg
      (map (fun x => x - 1) (chunks (Z.to_nat offsz) (Z.to_nat (count + 1)) (skipn (Z.to_nat (cw + 1)) (skipn (Z.to_nat cs_off) tbl))))
      (skipn (Z.to_nat (cw + 1 + (count + 1) * offsz)) (skipn (Z.to_nat cs_off) tbl))
      (ot_cff offsz) cff_types (2, 1) maxgid = inr (T', os, ds) /\
    adds = [(tg, firstn (Z.to_nat cs_off) tbl ++ to_be (Z.to_nat cw) count ++ [ot_width T'] ++ encode_offsets T' os ++ ds)].
Proof.
  unfold patch_cff. destruct (ift_charstrings_offset f c2) as [cs_off|] eqn:E1; [|discriminate].
  destruct (lookup f tg) as [tbl|] eqn:E2; [|discriminate].
  destruct (len tbl <? cs_off); [discriminate|].
  destruct (uN_at cw _ 0) as [count|] eqn:E3; [|discriminate]. destruct (uN_at 1 _ cw) as [offsz|] eqn:E4; [|discriminate].
  destruct (len _ <? _); [discriminate|].
  destruct (Z.ltb_spec offsz 1); cbn [orb]; [discriminate|]. destruct (Z.ltb_spec 4 offsz); [discriminate|].
  destruct (Z.eqb_spec count (maxgid + 1)); cbn [negb]; [|discriminate].
  destruct (patch_offset_array _ _ _ _ _ _ _ _) as [?|[[T' os] ds]] eqn:E5; cbn [bind]; [discriminate|].
  intros HH; inversion HH; subst adds. exists cs_off, tbl, count, offsz, T', os, ds. repeat split; auto; lia.
Qed.
