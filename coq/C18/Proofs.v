(* C18 — lemmas *)
From Coq Require Import ZArith List Bool Lia.
From FV Require Import Lib.RustInt C18.Model.
Import ListNotations.
Open Scope Z_scope.
