(* C18 — lemmas.  The development lives in GkProofs.v (builder, dedup, permutations, font maps,
   bookkeeping, table keyed); this file adds the statements that combine them. *)
From Coq Require Import ZArith List Bool Lia Permutation.
From FV Require Import Lib.RustInt C18.Model.
From FV Require Export C18.GkProofs C18.Bits.
Import ListNotations.
Open Scope Z_scope.

(* the offset type changes only when the new total size does not fit the old one, the chosen type
   is the first available one that represents the total, and every emitted offset fits it *)
Lemma poa_type_widens_only_when_needed views t offs data T avail maxgid T' os ds :
  patch_offset_array views t offs data T avail maxgid = inr (T', os, ds) ->
  Forall (fun x => off_fits T' x = true) os /\
  exists total,
    (total <= ot_max T /\ T' = T) \/
    (ot_max T < total /\ total <= ot_max T' /\
     exists pre post, avail = pre ++ T' :: post /\ Forall (fun c => ot_max c < total) pre).
Proof.
  intros H. pose proof H as H0. apply poa_inv in H. destruct H as [m [total [D [C [_ [_ B]]]]]].
  split; [eapply build_loop_fits; eauto|]. exists total. now apply choose_type_spec.
Qed.

(* glyf/loca: the tables put into the new font are the builder's data and its encoded offsets, and
   the loca format never changes *)
Lemma patch_glyf_inv f views maxgid glyf' loca' :
  patch_glyf f views maxgid = inr (glyf', loca') ->
  exists glyf T offs os,
    lookup f T_glyf = Some glyf /\ read_loca f = Some (T, offs) /\
    patch_offset_array views T_glyf offs glyf T [T] maxgid = inr (T, os, glyf') /\
    loca' = encode_offsets T os.
Proof.
  unfold patch_glyf. destruct (lookup f T_glyf) as [glyf|]; [|discriminate].
  destruct (read_loca f) as [[T offs]|]; [|discriminate].
  destruct (patch_offset_array views T_glyf offs glyf T [T] maxgid) as [?|[[T' os] ds]] eqn:E; cbn [bind]; [discriminate|].
  destruct (otype_eqb T' T) eqn:Q; cbn [negb]; [|discriminate].
  intros H; inversion H; subst.
  assert (T' = T).
  { pose proof E as E0. apply poa_inv in E0. destruct E0 as [m [total [_ [C _]]]].
    apply choose_type_spec in C. destruct C as [[_ ->]|[_ [_ [pre [post [Hp _]]]]]]; [reflexivity|].
    destruct pre as [|a pre]; cbn in Hp; [inversion Hp; reflexivity|].
    inversion Hp as [[Ha Hrest]]. destruct pre; discriminate. }
  subst T'. exists glyf, T, offs, os. auto.
Qed.
