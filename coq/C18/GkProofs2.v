(* C18 — lemmas, part 2: dedup, patch_offset_array, permutations, font maps, bookkeeping, table keyed, bits *)
From Coq Require Import ZArith List Bool Lia Permutation.
From FV Require Import Lib.RustInt C18.Model C18.GkProofs C18.Runs.
Import ListNotations.
Open Scope Z_scope.
Ltac Zify.zify_post_hook ::= Z.div_mod_to_equations.

(* ---------- dedup ---------- *)
Lemma dedup_inv views t m : dedup views t = inr m ->
  exists items, mapM (fun v => gp_items v t) views = inr items /\ m = gm_insert_all (concat items) [].
Proof.
  unfold dedup. destruct (mapM (fun v => gp_items v t) views) as [e|items]; cbn; [discriminate|].
  intros H; inversion H. eauto.
Qed.
Lemma dedup_ok views t m : dedup views t = inr m -> gm_ok m.
Proof. intros H. apply dedup_inv in H. destruct H as [items [_ ->]]. apply gm_insert_all_ok. constructor. Qed.
(* first patch wins: the data kept for a gid is the first one listed for it, in patch order *)
Lemma dedup_first_wins views t m : dedup views t = inr m ->
  exists items, mapM (fun v => gp_items v t) views = inr items /\
                forall g, lookup m g = first_data (concat items) g.
Proof.
  intros H. apply dedup_inv in H. destruct H as [items [E ->]]. exists items. split; [exact E|].
  intros g. rewrite gm_insert_all_lookup by constructor. reflexivity.
Qed.

(* ---------- patch_offset_array ---------- *)
Lemma gm_ok_keys_le (m : gmap) maxgid : gm_ok m -> last (map fst m) 0 <= maxgid ->
  Forall (fun gd => fst gd <= maxgid) m.
Proof.
  induction 1 as [|g d r Hall Hok IH]; intros HL; [constructor|].
  destruct r as [|[g2 d2] r2].
  - cbn in HL. repeat constructor. cbn. lia.
  - assert (HL' : last (map fst ((g2, d2) :: r2)) 0 <= maxgid) by exact HL.
    specialize (IH HL'). constructor; [|exact IH].
    inversion Hall; subst. inversion IH; subst. cbn in *. lia.
Qed.

(* what a successful patch_offset_array went through; the literal loop's result is the specification's *)
Lemma poa_gen_inv views t offs chk data T avail e_off maxgid T' os ds :
  patch_offset_array_gen views t offs chk data T avail e_off maxgid = inr (T', os, ds) -> 0 <= maxgid ->
  (ascending chk = true -> ascending offs = true) ->
  exists m total, dedup views t = inr m /\ choose_type T avail total = inr T' /\
    (last (map fst m) 0 <= maxgid) /\ ascending offs = true /\
    (Forall (fun gd => 0 <= fst gd) m ->
     build_loop (Z.to_nat (maxgid + 1)) 0 m offs data T' e_off 0 = inr (os, ds)).
Proof.
  unfold patch_offset_array_gen. destruct (dedup views t) as [[? ?]|m] eqn:D; [discriminate|].
  destruct (retained_total _ offs e_off 0) as [?|total0]; cbn [bind]; [discriminate|].
  match goal with |- context [choose_type T avail ?tt] => set (total := tt) end.
  destruct (choose_type T avail total) as [?|T0] eqn:C; cbn [bind]; [discriminate|].
  destruct (last (map fst m) 0 >? maxgid) eqn:L; [discriminate|].
  destruct (ascending chk) eqn:A0; cbn [negb]; [|discriminate].
  match goal with |- context [build_runs ?fu ?a ?b ?c offs data T0 e_off 0 [] []] =>
    destruct (build_runs fu a b c offs data T0 e_off 0 [] []) as [?|[os0 ds0]] eqn:B end; cbn [bind]; [discriminate|].
  intros H Hm HA; inversion H; subst. pose proof (HA eq_refl) as A. exists m, total. repeat split; auto; [lia|].
  intros Hnn. assert (HL : last (map fst m) 0 <= maxgid) by lia.
  pose proof (gm_ok_keys_le _ _ (dedup_ok _ _ _ D) HL) as Hle.
  assert (Hk : Forall (fun gd => 0 <= fst gd <= maxgid) m).
  { rewrite Forall_forall in *. intros x Hx. specialize (Hnn x Hx). specialize (Hle x Hx). lia. }
  destruct (build_runs_sound offs data T' e_off maxgid A _ 0 m 0 [] [] os ds ltac:(lia) (dedup_ok _ _ _ D) Hk B)
    as [os' [ds' [BL [-> ->]]]].
  rewrite Z.sub_0_r in BL. exact BL.
Qed.

Lemma poa_gen_exact views t offs chk data T avail e_off maxgid T' os ds :
  patch_offset_array_gen views t offs chk data T avail e_off maxgid = inr (T', os, ds) -> 0 <= maxgid ->
  (ascending chk = true -> ascending offs = true) ->
  exists m, dedup views t = inr m /\
   (Forall (fun gd => 0 <= fst gd) m ->
    forall g, 0 <= g <= maxgid ->
      exists a b s, nthZ os g = Some a /\ nthZ os (g + 1) = Some b /\
                    new_slice T' m offs data g = Some s /\ slice ds a b = Some s).
Proof.
  intros H Hm HA. apply poa_gen_inv in H; [|exact Hm|exact HA]. destruct H as [m [total [D [_ [_ [_ B0]]]]]].
  exists m. split; [exact D|]. intros Hnn g Hg. specialize (B0 Hnn).
  destruct (build_loop_spec _ _ _ _ _ _ _ _ _ _ B0 (dedup_ok _ _ _ D) Hnn) as [sls [L [-> [-> P]]]].
  assert (Hi : (Z.to_nat g < length sls)%nat) by lia.
  destruct (nth_error sls (Z.to_nat g)) as [s|] eqn:Es; [|apply nth_error_None in Es; lia].
  assert (Ha : exists a, nth_error (psums 0 sls) (Z.to_nat g) = Some a).
  { destruct (nth_error (psums 0 sls) (Z.to_nat g)) eqn:E; [eauto|].
    apply nth_error_None in E. rewrite psums_length in E. exfalso. clear - Hi E. unfold bytes in *. lia. }
  assert (Hb : exists b, nth_error (psums 0 sls) (S (Z.to_nat g)) = Some b).
  { destruct (nth_error (psums 0 sls) (S (Z.to_nat g))) eqn:E; [eauto|].
    apply nth_error_None in E. rewrite psums_length in E. exfalso. clear - Hi E. unfold bytes in *. lia. }
  destruct Ha as [a Ha], Hb as [b Hb]. exists a, b, s.
  rewrite !nthZ_nth by lia. replace (Z.to_nat (g + 1)) with (S (Z.to_nat g)) by lia.
  repeat split; auto.
  - specialize (P _ _ Es). rewrite Z2Nat.id in P by lia. exact P.
  - pose proof (psums_slice sls 0 _ a b s Ha Hb Es) as Q. now rewrite !Z.sub_0_r in Q.
Qed.

Lemma poa_gen_offsets views t offs chk data T avail e_off maxgid T' os ds :
  patch_offset_array_gen views t offs chk data T avail e_off maxgid = inr (T', os, ds) -> 0 <= maxgid ->
  (ascending chk = true -> ascending offs = true) ->
  (forall m, dedup views t = inr m -> Forall (fun gd => 0 <= fst gd) m) ->
  ascending os = true /\ len os = maxgid + 2 /\ nthZ os 0 = Some 0 /\ last os 0 = len ds /\
  Forall (fun x => off_fits T' x = true) os.
Proof.
  intros H Hm HA Hnn. apply poa_gen_inv in H; [|exact Hm|exact HA]. destruct H as [m [total [D [_ [_ [_ B0]]]]]].
  specialize (B0 (Hnn _ D)).
  pose proof (build_loop_fits _ _ _ _ _ _ _ _ _ _ B0) as F.
  destruct (build_loop_spec _ _ _ _ _ _ _ _ _ _ B0 (dedup_ok _ _ _ D) (Hnn _ D)) as [sls [L [-> [-> P]]]].
  repeat split.
  - apply psums_ascending.
  - unfold len. rewrite psums_length. unfold bytes in *. rewrite L. lia.
  - unfold nthZ. cbn. apply psums_hd.
  - rewrite psums_last. lia.
  - exact F.
Qed.


(* the glyf / gvar instances check all offsets *)
Lemma poa_inv views t offs data T avail e_off maxgid T' os ds :
  patch_offset_array views t offs data T avail e_off maxgid = inr (T', os, ds) -> 0 <= maxgid ->
  exists m total, dedup views t = inr m /\ choose_type T avail total = inr T' /\
    (last (map fst m) 0 <= maxgid) /\ ascending offs = true /\
    (Forall (fun gd => 0 <= fst gd) m ->
     build_loop (Z.to_nat (maxgid + 1)) 0 m offs data T' e_off 0 = inr (os, ds)).
Proof. intros H Hm. eapply poa_gen_inv; eauto. Qed.

Lemma poa_exact views t offs data T avail e_off maxgid T' os ds :
  patch_offset_array views t offs data T avail e_off maxgid = inr (T', os, ds) -> 0 <= maxgid ->
  exists m, dedup views t = inr m /\
   (Forall (fun gd => 0 <= fst gd) m ->
    forall g, 0 <= g <= maxgid ->
      exists a b s, nthZ os g = Some a /\ nthZ os (g + 1) = Some b /\
                    new_slice T' m offs data g = Some s /\ slice ds a b = Some s).
Proof. intros H Hm. eapply poa_gen_exact; eauto. Qed.

Lemma poa_offsets views t offs data T avail e_off maxgid T' os ds :
  patch_offset_array views t offs data T avail e_off maxgid = inr (T', os, ds) -> 0 <= maxgid ->
  (forall m, dedup views t = inr m -> Forall (fun gd => 0 <= fst gd) m) ->
  ascending os = true /\ len os = maxgid + 2 /\ nthZ os 0 = Some 0 /\ last os 0 = len ds /\
  Forall (fun x => off_fits T' x = true) os.
Proof. intros H Hm Hnn. eapply poa_gen_offsets; eauto. Qed.

Lemma choose_type_spec T avail total T' : choose_type T avail total = inr T' ->
  (total <= ot_max T /\ T' = T) \/
  (ot_max T < total /\ total <= ot_max T' /\
   exists pre post, avail = pre ++ T' :: post /\ Forall (fun c => ot_max c < total) pre).
Proof.
  unfold choose_type. destruct (Z.gtb_spec total (ot_max T)).
  - destruct (find (fun c => total <=? ot_max c) avail) as [c|] eqn:F; [|discriminate].
    intros E; inversion E; subst. right. split; [lia|].
    clear E. induction avail as [|x r IH]; [discriminate|]. cbn in F.
    destruct (Z.leb_spec total (ot_max x)).
    + inversion F; subst. split; [lia|]. exists [], r. split; [reflexivity | constructor].
    + destruct (IH F) as [L [pre [post [-> Hp]]]]. split; [exact L|].
      exists (x :: pre), post. split; [reflexivity|]. constructor; [lia | exact Hp].
  - intros E; inversion E; subst. left. split; [assumption | reflexivity].
Qed.

(* ---------- permutations ---------- *)
Lemma mapM_perm {A B} (f : A -> res B) l l' : Permutation l l' -> forall ys, mapM f l = inr ys ->
  exists ys', mapM f l' = inr ys' /\ Permutation ys ys'.
Proof.
  induction 1 as [|x l l' HP IH|x y l|l l' l'' H1 IH1 H2 IH2]; intros ys H.
  - exists ys. split; [exact H|]. cbn in H. inversion H. constructor.
  - apply mapM_cons_inv in H. destruct H as [y [ys0 [Fx [M ->]]]].
    destruct (IH _ M) as [ys' [M' P]]. exists (y :: ys'). split; [now apply mapM_cons_intro | now constructor].
  - apply mapM_cons_inv in H. destruct H as [b [ys0 [Fy [M ->]]]].
    apply mapM_cons_inv in M. destruct M as [a [ys1 [Fx [M ->]]]].
    exists (a :: b :: ys1). split; [|constructor].
    apply mapM_cons_intro; [exact Fx|]. now apply mapM_cons_intro.
  - destruct (IH1 _ H) as [ys' [M' P']]. destruct (IH2 _ M') as [ys'' [M'' P'']].
    exists ys''. split; [exact M''|]. eapply Permutation_trans; eauto.
Qed.

Lemma Permutation_concat {A} (l l' : list (list A)) : Permutation l l' -> Permutation (concat l) (concat l').
Proof.
  induction 1; cbn.
  - constructor.
  - now apply Permutation_app_head.
  - rewrite !app_assoc. apply Permutation_app_tail. apply Permutation_app_comm.
  - eapply Permutation_trans; eauto.
Qed.

Lemma forallb_perm {A} (p : A -> bool) l l' : Permutation l l' -> forallb p l = forallb p l'.
Proof.
  induction 1; cbn; [reflexivity | now rewrite IHPermutation | destruct (p x), (p y); reflexivity | congruence].
Qed.
Lemma existsb_perm {A} (p : A -> bool) l l' : Permutation l l' -> existsb p l = existsb p l'.
Proof.
  induction 1; cbn; [reflexivity | now rewrite IHPermutation | destruct (p x), (p y); reflexivity | congruence].
Qed.

(* items that agree on shared glyph ids *)
Definition items_agree (its : list (Z * bytes)) : Prop :=
  forall g d1 d2, In (g, d1) its -> In (g, d2) its -> d1 = d2.

Lemma first_data_perm its its' g : Permutation its its' -> items_agree its ->
  first_data its' g = first_data its g.
Proof.
  intros P A.
  destruct (first_data its g) as [d|] eqn:E1; destruct (first_data its' g) as [d'|] eqn:E2; try reflexivity.
  - apply first_data_in in E1, E2. f_equal. apply (A g); [|exact E1].
    eapply Permutation_in; [apply Permutation_sym; exact P | exact E2].
  - apply first_data_in in E1. exfalso. eapply first_data_none; [exact E2|].
    eapply Permutation_in; [exact P | exact E1].
  - apply first_data_in in E2. exfalso. eapply first_data_none; [exact E1|].
    eapply Permutation_in; [apply Permutation_sym; exact P | exact E2].
Qed.

Lemma gm_insert_all_perm its its' : Permutation its its' -> items_agree its ->
  gm_insert_all its' [] = gm_insert_all its [].
Proof.
  intros P A. apply gm_ext; try (apply gm_insert_all_ok; constructor).
  intros x. rewrite !gm_insert_all_lookup by constructor. cbn. now apply first_data_perm.
Qed.

(* the patches' data for table t agree wherever two of them list the same glyph *)
Definition views_agree (t : Z) (views : list gp) : Prop :=
  forall items, mapM (fun v => gp_items v t) views = inr items -> items_agree (concat items).

Lemma dedup_perm t views views' m : Permutation views views' -> views_agree t views ->
  dedup views t = inr m -> dedup views' t = inr m.
Proof.
  intros P A D. apply dedup_inv in D. destruct D as [items [M ->]].
  destruct (mapM_perm _ _ _ P _ M) as [items' [M' P']].
  unfold dedup. rewrite M'. cbn. f_equal.
  apply gm_insert_all_perm; [now apply Permutation_concat | now apply A].
Qed.

Lemma poa_gen_perm t views views' offs chk data T avail e_off maxgid r : Permutation views views' -> views_agree t views ->
  patch_offset_array_gen views t offs chk data T avail e_off maxgid = inr r ->
  patch_offset_array_gen views' t offs chk data T avail e_off maxgid = inr r.
Proof.
  intros P A H. unfold patch_offset_array_gen in *.
  destruct (dedup views t) as [[? ?]|m] eqn:D; [discriminate|].
  rewrite (dedup_perm _ _ _ _ P A D). exact H.
Qed.

Lemma poa_perm t views views' offs data T avail e_off maxgid r : Permutation views views' -> views_agree t views ->
  patch_offset_array views t offs data T avail e_off maxgid = inr r ->
  patch_offset_array views' t offs data T avail e_off maxgid = inr r.
Proof. unfold patch_offset_array. apply poa_gen_perm. Qed.

Lemma patch_glyf_perm f views views' maxgid r : Permutation views views' -> views_agree T_glyf views ->
  patch_glyf f views maxgid = inr r -> patch_glyf f views' maxgid = inr r.
Proof.
  intros P A H. unfold patch_glyf in *.
  destruct (lookup f T_glyf) as [glyf|]; [|discriminate].
  destruct (read_loca f) as [[T offs]|]; [|discriminate].
  destruct (patch_offset_array views T_glyf offs glyf T [T] (6, 10) maxgid) as [?|x] eqn:E; [discriminate|].
  rewrite (poa_perm _ _ _ _ _ _ _ _ _ _ P A E). exact H.
Qed.

(* applied bits *)
Lemma set_bit_comm : forall d i b j c,
  match set_bit d i b with Some d1 => set_bit d1 j c | None => None end =
  match set_bit d j c with Some d2 => set_bit d2 i b | None => None end.
Proof.
  induction d as [|x r IH]; intros [|i] b [|j] c; cbn; try reflexivity.
  - do 2 f_equal. rewrite <- !Z.lor_assoc. f_equal. apply Z.lor_comm.
  - destruct (set_bit r j c); reflexivity.
  - destruct (set_bit r i b); reflexivity.
  - specialize (IH i b j c).
    destruct (set_bit r i b) as [r1|]; destruct (set_bit r j c) as [r2|]; cbn in *;
      [now rewrite IH | now rewrite IH | now rewrite <- IH | reflexivity].
Qed.

Lemma mark_applied_comm st x y :
  (let? s := mark_applied st x in mark_applied s y) = (let? s := mark_applied st y in mark_applied s x).
Proof.
  destruct st as [ift iftx]. unfold mark_applied.
  destruct (pi_tbl x =? 0), (pi_tbl y =? 0); destruct ift as [a|], iftx as [b|]; cbn; try reflexivity;
  try (pose proof (set_bit_comm a (Z.to_nat (pi_bit x / 8)) (pi_bit x mod 8) (Z.to_nat (pi_bit y / 8)) (pi_bit y mod 8)) as C);
  try (pose proof (set_bit_comm b (Z.to_nat (pi_bit x / 8)) (pi_bit x mod 8) (Z.to_nat (pi_bit y / 8)) (pi_bit y mod 8)) as C');
  repeat match goal with
         | |- context [set_bit ?d ?i ?c] => destruct (set_bit d i c) eqn:?; cbn
         end; try reflexivity; try congruence;
  repeat match goal with
         | H : context [set_bit ?d ?i ?c] |- _ => destruct (set_bit d i c) eqn:?; cbn in *
         end; try reflexivity; try congruence.
Qed.

Lemma mark_all_perm l l' : Permutation l l' -> forall st, mark_all st l = mark_all st l'.
Proof.
  induction 1 as [|x l l' HP IH|x y l|l l' l'' H1 IH1 H2 IH2]; intros st.
  - reflexivity.
  - cbn. destruct (mark_applied st x); cbn; [reflexivity | apply IH].
  - cbn. pose proof (mark_applied_comm st y x) as C.
    destruct (mark_applied st y) as [e1|s1] eqn:E1; destruct (mark_applied st x) as [e2|s2] eqn:E2; cbn in *.
    + (* both fail: the only error is InternalError *)
      unfold mark_applied in E1, E2. destruct st as [a b].
      repeat match goal with
             | H : context [if ?c then _ else _] |- _ => destruct c
             | H : context [match ?o with Some _ => _ | None => _ end] |- _ => destruct o; cbn in H
             end; try discriminate; inversion E1; inversion E2; reflexivity.
    + rewrite <- C. reflexivity.
    + rewrite C. reflexivity.
    + destruct (mark_applied s1 x) as [?|s3]; destruct (mark_applied s2 y) as [?|s4]; cbn; try discriminate;
        inversion C; subst; reflexivity.
  - rewrite IH1. apply IH2.
Qed.

(* patches agree on shared glyphs, for both modelled glyph-indexed tables *)
Definition agree_all (views : list gp) : Prop :=
  views_agree T_glyf views /\ views_agree T_gvar views /\ views_agree T_CFF views /\ views_agree T_CFF2 views.

Lemma patch_gvar_perm f views views' maxgid r : Permutation views views' -> views_agree T_gvar views ->
  patch_gvar f views maxgid = inr r -> patch_gvar f views' maxgid = inr r.
Proof.
  intros P A H. unfold patch_gvar in *.
  destruct (lookup f T_gvar) as [g|]; [|discriminate].
  destruct (read_gvar g) as [[[[[[[[ax stc] sto] gc] fl] dao] T] offs]|]; [|discriminate].
  match goal with H : context [patch_offset_array views ?t ?o ?d ?ty ?av ?e ?mg] |- _ =>
    destruct (patch_offset_array views t o d ty av e mg) as [?|x] eqn:E; [discriminate|] end.
  rewrite (poa_perm _ _ _ _ _ _ _ _ _ _ P A E). exact H.
Qed.

Lemma patch_cff_perm cw tg c2 f views views' maxgid r : Permutation views views' -> views_agree tg views ->
  patch_cff cw tg c2 f views maxgid = inr r -> patch_cff cw tg c2 f views' maxgid = inr r.
Proof.
  intros P A H. unfold patch_cff in *.
  destruct (ift_charstrings_offset f c2) as [cs_off|]; [|discriminate].
  destruct (lookup f tg) as [tbl|]; [|discriminate].
  destruct (len tbl <? cs_off); [discriminate|].
  destruct (uN_at cw _ 0) as [count|]; [|discriminate]. destruct (uN_at 1 _ cw) as [offsz|]; [|discriminate].
  destruct (len _ <? _); [discriminate|]. destruct ((offsz <? 1) || (4 <? offsz)); [discriminate|].
  destruct (negb (count =? maxgid + 1)); [discriminate|].
  match goal with H : context [patch_offset_array views ?t ?o ?d ?ty ?av ?e ?mg] |- _ =>
    destruct (patch_offset_array views t o d ty av e mg) as [?|x] eqn:E; [discriminate|] end.
  rewrite (poa_perm _ _ _ _ _ _ _ _ _ _ P A E). exact H.
Qed.

Definition handler_stable (h : handler) : Prop :=
  forall f views views' maxgid r, Permutation views views' -> agree_all views ->
    h f views maxgid = inr r -> h f views' maxgid = inr r.

Lemma handlers_stable : Forall (fun th => handler_stable (snd th)) handlers.
Proof.
  unfold handlers.
  apply Forall_cons; [|apply Forall_cons; [|apply Forall_cons; [|apply Forall_cons; [|apply Forall_nil]]]];
    cbn [snd]; unfold handler_stable.
  - intros f v v' m r P [_ [_ [A _]]] H. eapply patch_cff_perm; eauto.
  - intros f v v' m r P [_ [_ [_ A]]] H. eapply patch_cff_perm; eauto.
  - intros f v v' m r P [A _] H. eapply patch_glyf_perm; eauto.
  - intros f v v' m r P [_ [A _]] H. eapply patch_gvar_perm; eauto.
Qed.

Lemma run_handlers_perm hs : Forall (fun th => handler_stable (snd th)) hs ->
  forall f views views' maxgid p fb r, Permutation views views' -> agree_all views ->
  run_handlers hs f views maxgid p fb = inr r -> run_handlers hs f views' maxgid p fb = inr r.
Proof.
  induction 1 as [|[t h] hs Hh Hhs IH]; intros f views views' maxgid p fb r P A H; [exact H|].
  cbn [run_handlers] in *. unfold lists_tag in *. rewrite <- (existsb_perm _ _ _ P).
  destruct (existsb (fun v => memZ t (gp_tables v)) views); [|eapply IH; eauto].
  destruct (h f views maxgid) as [?|adds] eqn:E; cbn [bind] in H; [discriminate|].
  cbn [snd] in Hh. rewrite (Hh _ _ _ _ _ P A E). cbn [bind]. eapply IH; eauto.
Qed.

Theorem gk_core_perm f (ivs ivs' : list (pinfo * gp)) F :
  Permutation ivs ivs' -> agree_all (map snd ivs) ->
  gk_core f (map fst ivs) (map snd ivs) = inr F -> gk_core f (map fst ivs') (map snd ivs') = inr F.
Proof.
  intros P A H.
  pose proof (Permutation_map fst P) as Pi. pose proof (Permutation_map snd P) as Pv.
  unfold gk_core in *.
  rewrite <- (forallb_perm _ _ _ Pv). rewrite <- (mark_all_perm _ _ Pi).
  destruct (lookup f T_maxp) as [mx|]; [|cbn in H; discriminate].
  destruct (uN_at 2 mx 4) as [ng|]; [|cbn in H; discriminate]. cbn [bind] in *.
  destruct (ng =? 0); [discriminate|].
  destruct (forallb (fun v => strictly_ascending (gp_tables v)) (map snd ivs)); cbn [negb] in *; [|discriminate].
  destruct (run_handlers handlers f (map snd ivs) (ng - 1) [T_IFT; T_IFTX] []) as [?|r] eqn:G; [discriminate|].
  rewrite (run_handlers_perm _ handlers_stable _ _ _ _ _ _ _ Pv A G). exact H.
Qed.

(* ---------- font maps ---------- *)
Lemma lookup_fb_add t d f x : lookup (fb_add t d f) x = if x =? t then Some d else lookup f x.
Proof.
  induction f as [|[t' d'] r IH]; cbn.
  - destruct (x =? t); reflexivity.
  - destruct (Z.ltb_spec t t').
    + cbn. destruct (Z.eqb_spec x t); reflexivity.
    + destruct (Z.eqb_spec t t').
      * subst. cbn. destruct (Z.eqb_spec x t'); reflexivity.
      * cbn. rewrite IH. destruct (Z.eqb_spec x t'); [|reflexivity].
        destruct (Z.eqb_spec x t); [lia | reflexivity].
Qed.

Lemma memZ_true x l : memZ x l = true <-> In x l.
Proof.
  unfold memZ. rewrite existsb_exists. split.
  - intros [y [Hy E]]. apply Z.eqb_eq in E. now subst.
  - intros H. exists x. split; [exact H | apply Z.eqb_refl].
Qed.

Lemma lookup_not_in {A} (f : list (Z * A)) x : ~ In x (map fst f) -> lookup f x = None.
Proof.
  induction f as [|[t d] r IH]; cbn; [reflexivity|]. intros H.
  destruct (Z.eqb_spec x t); [exfalso; apply H; now left|]. apply IH. tauto.
Qed.

Lemma lookup_copy_unprocessed f processed : NoDup (map fst f) -> forall fb x,
  lookup (copy_unprocessed f processed fb) x =
  if memZ x processed then lookup fb x
  else match lookup f x with Some d => Some d | None => lookup fb x end.
Proof.
  unfold copy_unprocessed. induction f as [|[t d] r IH]; intros ND fb x; cbn [fold_left fst snd lookup].
  - destruct (memZ x processed); reflexivity.
  - inversion ND as [|? ? Hn ND']; subst. rewrite IH by assumption.
    destruct (memZ x processed) eqn:Mx.
    + destruct (memZ t processed) eqn:Mt; [reflexivity|]. rewrite lookup_fb_add.
      destruct (Z.eqb_spec x t); [subst; congruence | reflexivity].
    + destruct (Z.eqb_spec x t).
      * subst. rewrite (lookup_not_in r t Hn). rewrite Mx. rewrite lookup_fb_add, Z.eqb_refl. reflexivity.
      * destruct (memZ t processed); [reflexivity|]. rewrite lookup_fb_add.
        destruct (Z.eqb_spec x t); [lia | reflexivity].
Qed.

(* which tables a handler may add *)
Definition handler_tags (h : handler) (S : list Z) : Prop :=
  forall f v m adds, h f v m = inr adds -> forall t, In t (map fst adds) -> In t S.

Lemma lookup_fold_add (adds : list (Z * bytes)) : forall fb x, ~ In x (map fst adds) ->
  lookup (fold_left (fun acc td => fb_add (fst td) (snd td) acc) adds fb) x = lookup fb x.
Proof.
  induction adds as [|[t d] r IH]; intros fb x H; [reflexivity|]. cbn [fold_left fst snd].
  rewrite IH by (intros K; apply H; now right). rewrite lookup_fb_add.
  destruct (Z.eqb_spec x t); [|reflexivity]. exfalso. apply H. left. cbn. auto.
Qed.

Lemma run_handlers_other hs S : Forall (fun th => handler_tags (snd th) S) hs ->
  forall f views maxgid p fb p' fb', run_handlers hs f views maxgid p fb = inr (p', fb') ->
  (forall x, ~ In x S -> lookup fb' x = lookup fb x) /\ (forall x, In x p' -> In x p \/ In x S).
Proof.
  induction 1 as [|[t h] hs Hh Hhs IH]; intros f views maxgid p fb p' fb' H.
  - cbn in H. inversion H; subst. split; auto.
  - cbn [run_handlers] in H. destruct (lists_tag views t); [|eapply IH; eauto].
    destruct (h f views maxgid) as [?|adds] eqn:E; cbn [bind] in H; [discriminate|].
    destruct (IH _ _ _ _ _ _ _ H) as [I1 I2]. split.
    + intros x Hx. rewrite I1 by assumption. apply lookup_fold_add.
      intros K. apply Hx. eapply Hh; eauto.
    + intros x Hx. destruct (I2 x Hx) as [K|K]; [|now right].
      apply in_app_or in K. destruct K as [K|K]; [right; eapply Hh; eauto | now left].
Qed.

Lemma handlers_tags : Forall (fun th => handler_tags (snd th) [T_glyf; T_loca; T_gvar; T_CFF; T_CFF2]) handlers.
Proof.
  unfold handlers.
  apply Forall_cons; [|apply Forall_cons; [|apply Forall_cons; [|apply Forall_cons; [|apply Forall_nil]]]];
    cbn [snd]; unfold handler_tags.
  - intros f0 v m adds H t Ht. unfold patch_cff in H.
    destruct (ift_charstrings_offset f0 _); [|discriminate]. destruct (lookup f0 _); [|discriminate].
    destruct (len _ <? _); [discriminate|]. destruct (uN_at _ _ 0); [|discriminate]. destruct (uN_at 1 _ _); [|discriminate].
    destruct (len _ <? _); [discriminate|]. destruct (_ || _); [discriminate|]. destruct (negb _); [discriminate|].
    destruct (patch_offset_array _ _ _ _ _ _ _ _) as [?|[[T' os] ds]]; cbn [bind] in H; [discriminate|].
    inversion H; subst. cbn in Ht. cbn. tauto.
  - intros f0 v m adds H t Ht. unfold patch_cff in H.
    destruct (ift_charstrings_offset f0 _); [|discriminate]. destruct (lookup f0 _); [|discriminate].
    destruct (len _ <? _); [discriminate|]. destruct (uN_at _ _ 0); [|discriminate]. destruct (uN_at 1 _ _); [|discriminate].
    destruct (len _ <? _); [discriminate|]. destruct (_ || _); [discriminate|]. destruct (negb _); [discriminate|].
    destruct (patch_offset_array _ _ _ _ _ _ _ _) as [?|[[T' os] ds]]; cbn [bind] in H; [discriminate|].
    inversion H; subst. cbn in Ht. cbn. tauto.
  - intros f0 v m adds H t Ht. unfold patch_glyf in H.
    destruct (lookup f0 T_glyf); [|discriminate]. destruct (read_loca f0) as [[T offs]|]; [|discriminate].
    destruct (patch_offset_array _ _ _ _ _ _ _ _) as [?|[[T' os] ds]]; cbn [bind] in H; [discriminate|].
    destruct (otype_eqb T' T); cbn [negb] in H; [|discriminate]. inversion H; subst. cbn in Ht. cbn. tauto.
  - intros f0 v m adds H t Ht. unfold patch_gvar in H.
    destruct (lookup f0 T_gvar) as [g|]; [|discriminate].
    destruct (read_gvar g) as [[[[[[[[ax stc] sto] gc] fl] dao] T] offs]|]; [|discriminate].
    destruct (patch_offset_array _ _ _ _ _ _ _ _) as [?|[[T' os] ds]]; cbn [bind] in H; [discriminate|].
    destruct (gvar_assemble _ _ _ _ _); cbn [bind] in H; [discriminate|]. inversion H; subst. cbn in Ht. cbn. tauto.
Qed.

(* every table other than glyf / loca / gvar / IFT / IFTX is byte-identical after glyph keyed application,
   none appears and none disappears *)
Lemma gk_core_other_tables f infos views F x : NoDup (map fst f) ->
  gk_core f infos views = inr F ->
  x <> T_glyf -> x <> T_loca -> x <> T_gvar -> x <> T_CFF -> x <> T_CFF2 -> x <> T_IFT -> x <> T_IFTX -> lookup F x = lookup f x.
Proof.
  intros ND H N1 N2 N5 N6 N7 N3 N4. unfold gk_core in H.
  destruct (lookup f T_maxp) as [mx|]; [|cbn in H; discriminate].
  destruct (uN_at 2 mx 4) as [ng|]; [|cbn in H; discriminate]. cbn [bind] in H.
  destruct (ng =? 0); [discriminate|].
  destruct (forallb _ views); cbn [negb] in H; [|discriminate].
  destruct (run_handlers handlers f views (ng - 1) [T_IFT; T_IFTX] []) as [?|[processed fb]] eqn:R; cbn [bind] in H; [discriminate|].
  destruct (run_handlers_other _ _ handlers_tags _ _ _ _ _ _ _ R) as [I1 I2].
  destruct (mark_all _ infos) as [?|[ift' iftx']]; cbn [bind] in H; [discriminate|].
  inversion H; subst F. rewrite lookup_copy_unprocessed by assumption.
  assert (Hx : ~ In x [T_glyf; T_loca; T_gvar; T_CFF; T_CFF2]) by (cbn; intros [E|[E|[E|[E|[E|[]]]]]]; congruence).
  destruct (memZ x processed) eqn:M.
  { apply memZ_true in M. destruct (I2 x M) as [K|K]; [cbn in K; destruct K as [E|[E|[]]]; congruence | contradiction]. }
  destruct (lookup f x); [reflexivity|].
  destruct iftx'; destruct ift'; rewrite ?lookup_fb_add;
    repeat match goal with |- context [x =? ?t] => destruct (Z.eqb_spec x t); [congruence|] end;
    rewrite (I1 x Hx); reflexivity.
Qed.

(* ---------- bookkeeping ---------- *)
Lemma apply_next_error_leaves_bookkeeping dec f inv noninv st e st' :
  apply_next dec f inv noninv st = (inl e, st') -> st' = st.
Proof.
  assert (K : apply_non_invalidating dec f noninv st = (inl e, st') -> st' = st).
  { unfold apply_non_invalidating. destruct (accumulate st noninv) as [?|[|a acc]].
    - intros H; now inversion H.
    - intros H; now inversion H.
    - destruct (apply_glyph_keyed_patches dec f (a :: acc)); intros H; inversion H; reflexivity. }
  unfold apply_next. destruct inv as [p|]; [|exact K].
  destruct (lookup st (pi_uri p)) as [[data|]|]; [| exact K | intros H; now inversion H].
  destruct (apply_table_keyed_patch dec f p data); intros H; inversion H; reflexivity.
Qed.

(* on success exactly the applied URIs are flipped: an invalidating patch flips only its own URI,
   otherwise every non-invalidating URI of the group present in the map becomes Applied *)
Lemma apply_next_success_flips dec f inv noninv st F st' :
  apply_next dec f inv noninv st = (inr F, st') ->
  (exists p, inv = Some p /\ (exists d, lookup st (pi_uri p) = Some (Some d)) /\ st' = set_applied st (pi_uri p)) \/
  st' = fold_left (fun s i => set_applied s (pi_uri i)) noninv st.
Proof.
  assert (K : apply_non_invalidating dec f noninv st = (inr F, st') ->
              st' = fold_left (fun s i => set_applied s (pi_uri i)) noninv st).
  { unfold apply_non_invalidating. destruct (accumulate st noninv) as [?|[|a acc]]; try (intros H; now inversion H).
    destruct (apply_glyph_keyed_patches dec f (a :: acc)); intros H; inversion H; reflexivity. }
  unfold apply_next. destruct inv as [p|]; [|intros H; right; auto].
  destruct (lookup st (pi_uri p)) as [[data|]|] eqn:L; [| intros H; right; auto | intros H; now inversion H].
  destruct (apply_table_keyed_patch dec f p data); intros H; inversion H. left. exists p. eauto.
Qed.

Lemma set_applied_other st u x : x <> u -> lookup (set_applied st u) x = lookup st x.
Proof.
  intros N. induction st as [|[k v] r IH]; cbn; [reflexivity|].
  destruct (Z.eqb_spec k u); cbn; destruct (Z.eqb_spec x k); try reflexivity; try lia; exact IH.
Qed.

(* ---------- table keyed ---------- *)
Fixpoint tk_first (es : list (res tk_entry)) (x : Z) : option tk_entry :=
  match es with
  | [] => None
  | inl _ :: _ => None
  | inr (t, fl, ml, s) :: r => if x =? t then Some (t, fl, ml, s) else tk_first r x
  end.

Lemma memZ_false x l : memZ x l = false <-> ~ In x l.
Proof.
  rewrite <- memZ_true. destruct (memZ x l); split; intros H; congruence.
Qed.

Lemma tk_fold_spec dec f : forall es k processed fb processed' fb',
  tk_fold dec f es k processed fb = inr (processed', fb') ->
  (forall x, In x processed -> lookup fb' x = lookup fb x /\ In x processed') /\
  (forall x, ~ In x processed ->
     match tk_first es x with
     | None => lookup fb' x = lookup fb x /\ ~ In x processed'
     | Some (t, fl, ml, s) =>
         In x processed' /\
         if Z.testbit fl 1 then lookup fb' x = lookup fb x
         else exists k' out, dec k' s (if Z.testbit fl 0 then None else lookup f x) ml = inr out /\
                             lookup fb' x = Some out
     end).
Proof.
  induction es as [|[e|[[[t fl] ml] s]] r IH]; intros k processed fb processed' fb' H.
  - cbn in H. inversion H; subst. split; intros; cbn; auto.
  - discriminate.
  - cbn [tk_fold] in H. destruct (memZ t processed) eqn:M.
    + destruct (IH _ _ _ _ _ H) as [I1 I2]. split; [exact I1|].
      intros x Hx. cbn [tk_first]. apply memZ_true in M.
      destruct (Z.eqb_spec x t); [subst; contradiction | now apply I2].
    + apply memZ_false in M.
      assert (Step : forall k2 fb2,
        tk_fold dec f r k2 (t :: processed) fb2 = inr (processed', fb') ->
        (forall x, x <> t -> lookup fb2 x = lookup fb x) ->
        (if Z.testbit fl 1 then lookup fb2 t = lookup fb t
         else exists k' out, dec k' s (if Z.testbit fl 0 then None else lookup f t) ml = inr out /\
                             lookup fb2 t = Some out) ->
        (forall x, In x processed -> lookup fb' x = lookup fb x /\ In x processed') /\
        (forall x, ~ In x processed ->
           match tk_first (inr (t, fl, ml, s) :: r) x with
           | None => lookup fb' x = lookup fb x /\ ~ In x processed'
           | Some (t0, fl0, ml0, s0) =>
               In x processed' /\
               if Z.testbit fl0 1 then lookup fb' x = lookup fb x
               else exists k' out, dec k' s0 (if Z.testbit fl0 0 then None else lookup f x) ml0 = inr out /\
                                   lookup fb' x = Some out
           end)).
      { intros k2 fb2 H2 Hother Ht. destruct (IH _ _ _ _ _ H2) as [I1 I2]. split.
        - intros x Hx. destruct (I1 x (or_intror Hx)) as [A B]. split; [|exact B].
          rewrite A. apply Hother. intros ->. contradiction.
        - intros x Hx. cbn [tk_first]. destruct (Z.eqb_spec x t).
          + subst x. destruct (I1 t (or_introl eq_refl)) as [A B]. split; [exact B|].
            destruct (Z.testbit fl 1); [now rewrite A|].
            destruct Ht as [k' [out [D L]]]. exists k', out. split; [exact D | now rewrite A].
          + assert (Hx' : ~ In x (t :: processed)) by (intros [E|E]; [now subst | contradiction]).
            specialize (I2 x Hx'). destruct (tk_first r x) as [[[[t0 fl0] ml0] s0]|].
            * destruct I2 as [A B]. split; [exact A|]. rewrite <- (Hother x n).
              destruct (Z.testbit fl0 1); [exact B | exact B].
            * destruct I2 as [A B]. split; [|exact B]. now rewrite A, Hother. }
      destruct (Z.testbit fl 1) eqn:Drop.
      * apply (Step _ _ H); [reflexivity | reflexivity].
      * assert (Dec : forall dict, dict = (if Z.testbit fl 0 then None else lookup f t) ->
           match dec k s dict ml with
           | inl kind => inl (6, 10 + kind)
           | inr out => tk_fold dec f r (S k) (t :: processed) (fb_add t out fb)
           end = inr (processed', fb') ->
           (forall x, In x processed -> lookup fb' x = lookup fb x /\ In x processed') /\
           (forall x, ~ In x processed ->
              match tk_first (inr (t, fl, ml, s) :: r) x with
              | None => lookup fb' x = lookup fb x /\ ~ In x processed'
              | Some (t0, fl0, ml0, s0) =>
                  In x processed' /\
                  if Z.testbit fl0 1 then lookup fb' x = lookup fb x
                  else exists k' out, dec k' s0 (if Z.testbit fl0 0 then None else lookup f x) ml0 = inr out /\
                                      lookup fb' x = Some out
              end)).
        { intros dict Hd K. destruct (dec k s dict ml) as [?|out] eqn:D; [discriminate|].
          apply (Step _ _ K).
          - intros x Hx. rewrite lookup_fb_add. destruct (Z.eqb_spec x t); [contradiction | reflexivity].
          - exists k, out. split; [now rewrite <- Hd | now rewrite lookup_fb_add, Z.eqb_refl]. }
        destruct (lookup f t) as [base|] eqn:B; destruct (Z.testbit fl 0) eqn:R; try discriminate;
          eapply Dec; try exact H; reflexivity.
Qed.

Lemma tk_entries_no_inl dec f es k p fb r : tk_fold dec f es k p fb = inr r -> True.
Proof. trivial. Qed.

(* table keyed application: exactly what the patch says *)
Lemma apply_table_keyed_exact dec f fmt offs p F : NoDup (map fst f) ->
  apply_table_keyed dec f fmt offs p = inr F ->
  forall x,
    match tk_first (tk_entries p offs) x with
    | None => lookup F x = lookup f x                                  (* unlisted: byte-identical *)
    | Some (t, fl, ml, s) =>
        if Z.testbit fl 1 then lookup F x = None                        (* dropped: absent *)
        else exists k out, dec k s (if Z.testbit fl 0 then None else lookup f x) ml = inr out /\
                           lookup F x = Some out                        (* replacement / diff result *)
    end.
Proof.
  intros ND H x. unfold apply_table_keyed in H.
  destruct (fmt =? T_iftk); cbn [negb] in H; [|discriminate].
  destruct (tk_fold dec f (tk_entries p offs) 0 [] []) as [?|[processed fb]] eqn:E; cbn [bind] in H; [discriminate|].
  inversion H; subst F. rewrite lookup_copy_unprocessed by assumption.
  destruct (tk_fold_spec _ _ _ _ _ _ _ _ E) as [_ I2]. specialize (I2 x (fun K => K)).
  destruct (tk_first (tk_entries p offs) x) as [[[[t fl] ml] s]|].
  - destruct I2 as [A B]. apply memZ_true in A. rewrite A.
    destruct (Z.testbit fl 1); [exact B | exact B].
  - destruct I2 as [A B]. apply memZ_false in B. rewrite B. rewrite A. cbn.
    destruct (lookup f x); reflexivity.
Qed.

(* a compatibility id mismatch is reported before any decoder call: whatever the decoder does *)
Lemma tk_incompatible_no_decode f info p cid :
  font_compat_id f (pi_tbl info) = inr cid ->
  (bytes_eqb cid (pi_compat info) = false \/
   exists fmt pcid offs, tk_header p = inr (fmt, pcid, offs) /\ bytes_eqb pcid cid = false) ->
  forall dec, apply_table_keyed_patch dec f info p = inl (4, 0).
Proof.
  intros C H dec. unfold apply_table_keyed_patch. rewrite C. cbn [bind].
  destruct H as [H|[fmt [pcid [offs [Hh Hc]]]]].
  - rewrite H. reflexivity.
  - destruct (bytes_eqb cid (pi_compat info)); [|reflexivity]. cbn [negb].
    rewrite Hh. cbn [bind]. rewrite Hc. reflexivity.
Qed.

(* ---------- applied bits ---------- *)
Lemma set_bit_spec : forall d i b d', set_bit d i b = Some d' ->
  length d' = length d /\
  forall k, nth_error d' k =
            if Nat.eqb k i then option_map (fun x => Z.lor x (Z.shiftl 1 b)) (nth_error d k) else nth_error d k.
Proof.
  induction d as [|x r IH]; intros i b d' H; [destruct i; discriminate|].
  destruct i; cbn in H.
  - inversion H; subst. split; [reflexivity|]. intros [|k]; reflexivity.
  - destruct (set_bit r i b) as [r'|] eqn:E; [|discriminate]. cbn in H. inversion H; subst.
    destruct (IH _ _ _ E) as [L N]. split; [cbn; now rewrite L|].
    intros [|k]; [reflexivity|]. cbn. apply N.
Qed.

Lemma testbit_or_mask x b j : 0 <= b -> 0 <= j ->
  Z.testbit (Z.lor x (Z.shiftl 1 b)) j = Z.testbit x j || (j =? b).
Proof.
  intros Hb Hj. rewrite Z.lor_spec, Z.shiftl_spec by lia. f_equal.
  destruct (Z.eqb_spec j b).
  - subst. now rewrite Z.sub_diag.
  - destruct (Z.ltb_spec j b).
    + now rewrite Z.testbit_neg_r by lia.
    + apply Z.bits_above_log2; [lia|]. cbn. lia.
Qed.

(* glyf/loca: the tables put into the new font are the builder's data and its encoded offsets, and
   the loca format never changes *)
Lemma patch_glyf_inv f views maxgid adds :
  patch_glyf f views maxgid = inr adds ->
  exists glyf T offs os ds,
    lookup f T_glyf = Some glyf /\ read_loca f = Some (T, offs) /\
    patch_offset_array views T_glyf offs glyf T [T] (6, 10) maxgid = inr (T, os, ds) /\
    adds = [(T_glyf, ds); (T_loca, encode_offsets T os)].
Proof.
  unfold patch_glyf. destruct (lookup f T_glyf) as [glyf|]; [|discriminate].
  destruct (read_loca f) as [[T offs]|]; [|discriminate].
  destruct (patch_offset_array views T_glyf offs glyf T [T] (6, 10) maxgid) as [?|[[T' os] ds]] eqn:E; cbn [bind]; [discriminate|].
  destruct (otype_eqb T' T) eqn:Q; cbn [negb]; [|discriminate].
  intros H; inversion H; subst.
  assert (T' = T).
  { unfold patch_offset_array, patch_offset_array_gen in E. destruct (dedup views T_glyf) as [[? ?]|m]; [discriminate|].
    destruct (retained_total _ offs _ 0); cbn [bind] in E; [discriminate|].
    match type of E with context [choose_type T [T] ?tt] => destruct (choose_type T [T] tt) as [?|T0] eqn:C end;
      cbn [bind] in E; [discriminate|].
    destruct (last _ 0 >? maxgid); [discriminate|]. destruct (ascending offs); cbn [negb] in E; [|discriminate].
    match type of E with context [build_runs ?a ?b ?c ?d offs glyf T0 ?e 0 [] []] =>
      destruct (build_runs a b c d offs glyf T0 e 0 [] []) as [?|[o1 d1]] end; cbn [bind] in E; [discriminate|].
    inversion E; subst.
    apply choose_type_spec in C. destruct C as [[_ ->]|[_ [_ [pre [post [Hp _]]]]]]; [reflexivity|].
    destruct pre as [|a pre]; cbn in Hp; [inversion Hp; reflexivity|].
    inversion Hp as [[Ha Hrest]]. destruct pre; discriminate. }
  subst T'. exists glyf, T, offs, os, ds. auto.
Qed.

