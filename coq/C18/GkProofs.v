(* C18 — lemmas about the glyph keyed core (offset-array builder, dedup, applied bits, permutations) *)
From Coq Require Import ZArith List Bool Lia Permutation.
From FV Require Import Lib.RustInt C18.Model.
Import ListNotations.
Open Scope Z_scope.
Ltac Zify.zify_post_hook ::= Z.div_mod_to_equations.

Lemma len_app {A} (a b : list A) : len (a ++ b) = len a + len b.
Proof. unfold len. rewrite app_length. lia. Qed.
Lemma len_nonneg {A} (a : list A) : 0 <= len a.
Proof. unfold len. lia. Qed.
Lemma len_nil {A} : len (@nil A) = 0. Proof. reflexivity. Qed.
Lemma len_cons {A} (x : A) l : len (x :: l) = 1 + len l.
Proof. unfold len. cbn [length]. lia. Qed.

(* ---------- slices ---------- *)
Lemma slice_full_prefix (s r : bytes) : slice (s ++ r) 0 (len s) = Some s.
Proof.
  unfold slice. rewrite len_app.
  pose proof (len_nonneg s). pose proof (len_nonneg r).
  replace ((0 <=? 0) && (0 <=? len s) && (len s <=? len s + len r)) with true
    by (symmetry; repeat (apply andb_true_intro; split); apply Z.leb_le; lia).
  cbn [Z.to_nat skipn]. rewrite Z.sub_0_r. unfold len. rewrite Nat2Z.id.
  rewrite firstn_app, Nat.sub_diag, firstn_all. cbn. now rewrite app_nil_r.
Qed.

Lemma slice_skip_prefix (s r : bytes) a b : 0 <= a ->
  slice (s ++ r) (len s + a) (len s + b) = slice r a b.
Proof.
  intros Ha. unfold slice. rewrite len_app.
  pose proof (len_nonneg s).
  replace ((0 <=? len s + a) && (len s + a <=? len s + b) && (len s + b <=? len s + len r))
    with ((0 <=? a) && (a <=? b) && (b <=? len r)).
  2:{ f_equal; [f_equal|]; apply eq_true_iff_eq; rewrite !Z.leb_le; lia. }
  destruct ((0 <=? a) && (a <=? b) && (b <=? len r)); [|reflexivity].
  f_equal. replace (len s + b - (len s + a)) with (b - a) by lia.
  f_equal. unfold len. rewrite Z2Nat.inj_add by lia. rewrite Nat2Z.id.
  rewrite skipn_app. rewrite skipn_all2 by lia.
  replace (length s + Z.to_nat a - length s)%nat with (Z.to_nat a) by lia. reflexivity.
Qed.

(* prefix sums of the lengths of a list of slices, starting at w *)
Fixpoint psums (w : Z) (ls : list bytes) : list Z :=
  match ls with [] => [w] | s :: r => w :: psums (w + len s) r end.

Lemma psums_length w ls : length (psums w ls) = S (length ls).
Proof. revert w; induction ls; intros; cbn; [reflexivity | now rewrite IHls]. Qed.

Lemma psums_hd w ls : nth_error (psums w ls) 0 = Some w.
Proof. destruct ls; reflexivity. Qed.

Lemma psums_ge w ls i a : nth_error (psums w ls) i = Some a -> w <= a.
Proof.
  revert w i. induction ls as [|s r IH]; intros w i H.
  - destruct i as [|[|i]]; cbn in H; inversion H; lia.
  - destruct i; cbn in H. + inversion H; lia.
    + apply IH in H. pose proof (len_nonneg s). lia.
Qed.

Lemma psums_ascending w ls : ascending (psums w ls) = true.
Proof.
  revert w. induction ls as [|s r IH]; intros w; [reflexivity|].
  cbn [psums]. specialize (IH (w + len s)).
  pose proof (psums_hd (w + len s) r) as Hh.
  destruct (psums (w + len s) r) as [|z l] eqn:E; [reflexivity|].
  cbn in Hh. inversion Hh; subst z. cbn [ascending] in *.
  apply andb_true_intro; split; [|exact IH]. apply Z.leb_le. pose proof (len_nonneg s). lia.
Qed.

Lemma psums_last w ls : last (psums w ls) 0 = w + len (concat ls).
Proof.
  revert w. induction ls as [|s r IH]; intros w.
  - cbn. lia.
  - cbn [psums concat]. rewrite len_app.
    replace (last (w :: psums (w + len s) r) 0) with (last (psums (w + len s) r) 0).
    + rewrite IH. lia.
    + destruct r; reflexivity.
Qed.

Lemma psums_slice ls : forall w i a b s,
  nth_error (psums w ls) i = Some a -> nth_error (psums w ls) (S i) = Some b ->
  nth_error ls i = Some s -> slice (concat ls) (a - w) (b - w) = Some s.
Proof.
  induction ls as [|x r IH]; intros w i a b s Ha Hb Hs.
  - destruct i; discriminate.
  - destruct i.
    + change (nth_error (psums w (x :: r)) 1) with (nth_error (psums (w + len x) r) 0) in Hb.
      rewrite psums_hd in Hb.
      cbn in Ha, Hs. inversion Ha; inversion Hs; subst. inversion Hb; subst.
      cbn [concat]. replace (a - a) with 0 by lia. replace (a + len s - a) with (len s) by lia.
      apply slice_full_prefix.
    + change (nth_error (psums w (x :: r)) (S i)) with (nth_error (psums (w + len x) r) i) in Ha.
      change (nth_error (psums w (x :: r)) (S (S i))) with (nth_error (psums (w + len x) r) (S i)) in Hb.
      cbn in Hs. cbn [concat].
      pose proof (psums_ge _ _ _ _ Ha).
      replace (a - w) with (len x + (a - (w + len x))) by lia.
      replace (b - w) with (len x + (b - (w + len x))) by lia.
      rewrite slice_skip_prefix by lia. eapply IH; eauto.
Qed.

(* ---------- replacement maps ---------- *)
Inductive gm_ok : gmap -> Prop :=
| gm_ok_nil : gm_ok []
| gm_ok_cons g d r : Forall (fun gd => g < fst gd) r -> gm_ok r -> gm_ok ((g, d) :: r).

Lemma lookup_none_lt {A} (m : list (Z * A)) g : Forall (fun gd => g < fst gd) m -> lookup m g = None.
Proof.
  induction 1 as [|[g' d'] r H _ IH]; [reflexivity|]. cbn in *.
  destruct (Z.eqb_spec g g'); [lia | exact IH].
Qed.

Lemma gm_insert_keys g d m : forall x, In x (map fst (gm_insert g d m)) -> x = g \/ In x (map fst m).
Proof.
  induction m as [|[g' d'] r IH]; intros x H; cbn in *.
  - destruct H; [now left | contradiction].
  - destruct (g <? g'); [cbn in H; destruct H; auto|].
    destruct (g =? g'); [cbn in H; auto|].
    cbn in H. destruct H; [auto|]. apply IH in H. destruct H; auto.
Qed.

Lemma gm_insert_ok g d m : gm_ok m -> gm_ok (gm_insert g d m).
Proof.
  induction 1 as [|g' d' r Hall Hok IH]; cbn.
  - constructor; constructor.
  - destruct (Z.ltb_spec g g').
    + constructor; [|constructor; assumption].
      constructor; [cbn; lia|]. eapply Forall_impl; [|exact Hall]. cbn; intros; lia.
    + destruct (Z.eqb_spec g g'); [constructor; assumption|].
      constructor; [|exact IH].
      apply Forall_forall. intros [x dx] Hin.
      assert (Hk : In x (map fst (gm_insert g d r))) by (apply in_map_iff; exists (x, dx); auto).
      apply gm_insert_keys in Hk. cbn. destruct Hk as [->|Hk]; [lia|].
      apply in_map_iff in Hk. destruct Hk as [[y dy] [<- Hy]].
      rewrite Forall_forall in Hall. apply (Hall _ Hy).
Qed.

Lemma gm_insert_lookup g d m x : gm_ok m ->
  lookup (gm_insert g d m) x =
  if x =? g then (match lookup m g with Some d0 => Some d0 | None => Some d end) else lookup m x.
Proof.
  induction 1 as [|g' d' r Hall Hok IH]; cbn.
  - destruct (x =? g); reflexivity.
  - destruct (Z.ltb_spec g g').
    + cbn. destruct (Z.eqb_spec x g).
      * subst. destruct (Z.eqb_spec g g'); [lia|].
        rewrite lookup_none_lt; [reflexivity|]. eapply Forall_impl; [|exact Hall]. cbn; intros; lia.
      * reflexivity.
    + destruct (Z.eqb_spec g g').
      * subst. cbn. destruct (Z.eqb_spec x g'); [subst; try rewrite Z.eqb_refl; reflexivity | reflexivity].
      * cbn. rewrite IH. destruct (Z.eqb_spec x g').
        -- destruct (Z.eqb_spec x g); [lia | reflexivity].
        -- destruct (Z.eqb_spec x g); [|reflexivity]. subst.
           destruct (Z.eqb_spec g g'); [lia | reflexivity].
Qed.

(* first item for a gid in a list of items *)
Fixpoint first_data (items : list (Z * bytes)) (g : Z) : option bytes :=
  match items with [] => None | (g', d) :: r => if g =? g' then Some d else first_data r g end.

Lemma gm_insert_all_ok items m : gm_ok m -> gm_ok (gm_insert_all items m).
Proof.
  unfold gm_insert_all. revert m. induction items as [|[g d] r IH]; intros m H; cbn; [exact H|].
  apply IH. now apply gm_insert_ok.
Qed.

Lemma gm_insert_all_lookup items : forall m x, gm_ok m ->
  lookup (gm_insert_all items m) x =
  match lookup m x with Some d => Some d | None => first_data items x end.
Proof.
  unfold gm_insert_all. induction items as [|[g d] r IH]; intros m x H; cbn [fold_left first_data fst snd].
  - destruct (lookup m x); reflexivity.
  - rewrite IH by now apply gm_insert_ok. rewrite gm_insert_lookup by assumption.
    destruct (Z.eqb_spec x g).
    + subst. destruct (lookup m g); reflexivity.
    + reflexivity.
Qed.

Lemma first_data_in items g d : first_data items g = Some d -> In (g, d) items.
Proof.
  induction items as [|[g' d'] r IH]; cbn; [discriminate|].
  destruct (Z.eqb_spec g g'); intros H; [inversion H; subst; now left | right; auto].
Qed.
Lemma first_data_none items g : first_data items g = None -> forall d, ~ In (g, d) items.
Proof.
  induction items as [|[g' d'] r IH]; cbn; [tauto|].
  destruct (Z.eqb_spec g g'); [discriminate|]. intros H d [E|Hin]; [inversion E; lia | eapply IH; eauto].
Qed.

(* extensionality of ok maps *)
Lemma gm_ext m1 : forall m2, gm_ok m1 -> gm_ok m2 -> (forall x, lookup m1 x = lookup m2 x) -> m1 = m2.
Proof.
  induction m1 as [|[g1 d1] r1 IH]; intros m2 H1 H2 E.
  - destruct m2 as [|[g2 d2] r2]; [reflexivity|]. specialize (E g2). cbn in E.
    rewrite Z.eqb_refl in E. discriminate.
  - destruct m2 as [|[g2 d2] r2].
    + specialize (E g1). cbn in E. rewrite Z.eqb_refl in E. discriminate.
    + inversion H1 as [|? ? ? A1 O1]; inversion H2 as [|? ? ? A2 O2]; subst.
      assert (g1 = g2).
      { pose proof (E g1) as E1. pose proof (E g2) as E2. cbn in E1, E2.
        rewrite Z.eqb_refl in E1, E2.
        destruct (Z.eqb_spec g1 g2); [assumption|].
        destruct (Z.eqb_spec g2 g1); [lia|].
        destruct (Z.lt_total g1 g2) as [L|[L|L]]; [|lia|].
        - rewrite (lookup_none_lt r2 g1) in E1; [discriminate|].
          eapply Forall_impl; [|exact A2]. cbn; intros; lia.
        - rewrite (lookup_none_lt r1 g2) in E2; [discriminate|].
          eapply Forall_impl; [|exact A1]. cbn; intros; lia. }
      subst g2. pose proof (E g1) as E1. cbn in E1. rewrite Z.eqb_refl in E1. inversion E1; subst d2.
      f_equal. apply IH; try assumption. intros x. specialize (E x). cbn in E.
      destruct (Z.eqb_spec x g1); [|exact E]. subst.
      rewrite !lookup_none_lt by assumption. reflexivity.
Qed.

(* ---------- the builder ---------- *)
Definition old_slice (offs : list Z) (data : bytes) (g : Z) : option bytes :=
  match nthZ offs g, nthZ offs (g + 1) with
  | Some s, Some e => slice data s e
  | _, _ => None
  end.
Definition padded (T : otype) (d : bytes) : bytes := d ++ repeat 0 (Z.to_nat (padding T (len d))).
(* what the new font must contain for glyph g *)
Definition new_slice (T : otype) (repl : gmap) (offs : list Z) (data : bytes) (g : Z) : option bytes :=
  match lookup repl g with Some d => Some (padded T d) | None => old_slice offs data g end.

Lemma build_loop_spec : forall n gid repl offs data T e_off w os ds,
  build_loop n gid repl offs data T e_off w = inr (os, ds) ->
  gm_ok repl -> Forall (fun gd => gid <= fst gd) repl ->
  exists sls, length sls = n /\ ds = concat sls /\ os = psums w sls /\
    forall i s, nth_error sls i = Some s -> new_slice T repl offs data (gid + Z.of_nat i) = Some s.
Proof.
  induction n as [|n IH]; intros gid repl offs data T e_off w os ds H Hok Hge.
  - cbn in H. destruct (off_fits T w); [|discriminate]. inversion H; subst.
    exists []. repeat split; try reflexivity. intros [|i] s Hs; discriminate.
  - cbn [build_loop] in H.
    assert (Hkeep : lookup repl gid = None ->
      match nthZ offs gid, nthZ offs (gid + 1) with
      | Some s, Some e =>
          match slice data s e with
          | Some sl => if off_fits T w
                       then let? (os, ds) := build_loop n (gid + 1) repl offs data T e_off (w + (e - s)) in
                            inr (w :: os, sl ++ ds)
                       else inl (8, 0)
          | None => inl (2, 1)
          end
      | _, _ => inl e_off
      end = inr (os, ds) ->
      Forall (fun gd => gid + 1 <= fst gd) repl ->
      exists sls, length sls = S n /\ ds = concat sls /\ os = psums w sls /\
        forall i s, nth_error sls i = Some s -> new_slice T repl offs data (gid + Z.of_nat i) = Some s).
    { intros Hnone K Hge'.
      destruct (nthZ offs gid) as [s0|] eqn:E1; [|discriminate].
      destruct (nthZ offs (gid + 1)) as [e0|] eqn:E2; [|discriminate].
      destruct (slice data s0 e0) as [sl|] eqn:E3; [|discriminate].
      destruct (off_fits T w); [|discriminate].
      destruct (build_loop n (gid + 1) repl offs data T e_off (w + (e0 - s0))) as [?|[os' ds']] eqn:E4; [discriminate|].
      cbn in K. inversion K; subst.
      destruct (IH _ _ _ _ _ _ _ _ _ E4 Hok Hge') as [sls [L [D [O P]]]].
      assert (Hlen : len sl = e0 - s0).
      { unfold slice in E3. destruct ((0 <=? s0) && (s0 <=? e0) && (e0 <=? len data)) eqn:G; [|discriminate].
        inversion E3. apply andb_prop in G. destruct G as [G G3]. apply andb_prop in G. destruct G as [G1 G2].
        apply Z.leb_le in G1, G2, G3. unfold len in *. rewrite firstn_length, skipn_length. lia. }
      exists (sl :: sls). repeat split.
      - cbn. now rewrite L.
      - cbn. now rewrite D.
      - cbn [psums]. now rewrite Hlen, O.
      - intros [|i] s Hs.
        + cbn in Hs. inversion Hs; subst. unfold new_slice, old_slice.
          rewrite Z.add_0_r, Hnone, E1, E2. exact E3.
        + cbn in Hs. apply P in Hs. rewrite <- Hs. f_equal. lia. }
    destruct repl as [|[g d] r'].
    + apply Hkeep; [reflexivity | exact H | constructor].
    + destruct (Z.eqb_spec g gid).
      * subst g. destruct (off_fits T w); [|discriminate].
        destruct (build_loop n (gid + 1) r' offs data T e_off (w + len d + padding T (len d))) as [?|[os' ds']] eqn:E4; [discriminate|].
        cbn in H. inversion H; subst.
        inversion Hok as [|? ? ? Hall Hok']; subst.
        assert (Hge' : Forall (fun gd => gid + 1 <= fst gd) r').
        { eapply Forall_impl; [|exact Hall]. cbn; intros; lia. }
        destruct (IH _ _ _ _ _ _ _ _ _ E4 Hok' Hge') as [sls [L [D [O P]]]].
        exists (padded T d :: sls). repeat split.
        -- cbn. now rewrite L.
        -- cbn. rewrite D. unfold padded. now rewrite <- app_assoc.
        -- cbn [psums]. rewrite O. do 2 f_equal. unfold padded. rewrite len_app.
           assert (Hr : len (repeat 0 (Z.to_nat (padding T (len d)))) = Z.of_nat (Z.to_nat (padding T (len d))))
             by (unfold len; now rewrite repeat_length).
           rewrite Hr.
           assert (0 <= padding T (len d)).
           { unfold padding. destruct (1 <? ot_div T) eqn:G; [|lia]. apply Z.ltb_lt in G.
             apply Z.mod_pos_bound. lia. }
           lia.
        -- intros [|i] s Hs.
           ++ cbn in Hs. inversion Hs; subst. unfold new_slice. cbn [lookup].
              now rewrite Z.add_0_r, Z.eqb_refl.
           ++ cbn in Hs. apply P in Hs. rewrite <- Hs. unfold new_slice. cbn [lookup].
              replace (gid + Z.of_nat (S i)) with (gid + 1 + Z.of_nat i) by lia.
              destruct (Z.eqb_spec (gid + 1 + Z.of_nat i) gid); [lia|]. reflexivity.
      * inversion Hge as [|? ? Hg Hge0]; subst. cbn in Hg.
        apply Hkeep; [| exact H |].
        -- cbn [lookup]. destruct (Z.eqb_spec gid g); [lia|].
           inversion Hok; subst. apply lookup_none_lt.
           eapply Forall_impl; [|eassumption]. cbn; intros; lia.
        -- constructor; [cbn; lia|]. inversion Hok; subst.
           eapply Forall_impl; [|eassumption]. cbn; intros; lia.
Qed.

Lemma build_loop_fits : forall n gid repl offs data T e_off w os ds,
  build_loop n gid repl offs data T e_off w = inr (os, ds) -> Forall (fun x => off_fits T x = true) os.
Proof.
  induction n as [|n IH]; intros gid repl offs data T e_off w os ds H.
  - cbn in H. destruct (off_fits T w) eqn:F; [|discriminate]. inversion H; subst. repeat constructor. exact F.
  - cbn [build_loop] in H.
    assert (K : forall repl',
      match nthZ offs gid, nthZ offs (gid + 1) with
      | Some s, Some e =>
          match slice data s e with
          | Some sl => if off_fits T w
                       then let? (os, ds) := build_loop n (gid + 1) repl' offs data T e_off (w + (e - s)) in
                            inr (w :: os, sl ++ ds)
                       else inl (8, 0)
          | None => inl (2, 1)
          end
      | _, _ => inl e_off
      end = inr (os, ds) -> Forall (fun x => off_fits T x = true) os).
    { intros repl' K.
      destruct (nthZ offs gid); [|discriminate]. destruct (nthZ offs (gid + 1)); [|discriminate].
      destruct (slice data z z0); [|discriminate]. destruct (off_fits T w) eqn:F; [|discriminate].
      destruct (build_loop n (gid + 1) repl' offs data T e_off (w + (z0 - z))) as [?|[os' ds']] eqn:E; [discriminate|].
      cbn in K. inversion K; subst. constructor; [exact F | eapply IH; eauto]. }
    destruct repl as [|[g d] r']; [eapply K; eauto|].
    destruct (g =? gid); [|eapply K; eauto].
    destruct (off_fits T w) eqn:F; [|discriminate].
    destruct (build_loop n (gid + 1) r' offs data T e_off (w + len d + padding T (len d))) as [?|[os' ds']] eqn:E; [discriminate|].
    cbn in H. inversion H; subst. constructor; [exact F | eapply IH; eauto].
Qed.


(* ---------- mapM ---------- *)
Lemma mapM_cons_inv {A B} (f : A -> res B) x l ys : mapM f (x :: l) = inr ys ->
  exists y ys0, f x = inr y /\ mapM f l = inr ys0 /\ ys = y :: ys0.
Proof.
  cbn. destruct (f x) as [?|y]; cbn; [discriminate|]. destruct (mapM f l) as [?|ys0]; cbn; [discriminate|].
  intros H; inversion H. eauto.
Qed.
Lemma mapM_cons_intro {A B} (f : A -> res B) x l y ys0 : f x = inr y -> mapM f l = inr ys0 ->
  mapM f (x :: l) = inr (y :: ys0).
Proof. intros H1 H2. cbn. rewrite H1. cbn. rewrite H2. reflexivity. Qed.


Lemma nthZ_nth {A} (l : list A) g : 0 <= g -> nthZ l g = nth_error l (Z.to_nat g).
Proof. intros. unfold nthZ. destruct (Z.ltb_spec g 0); [lia | reflexivity]. Qed.

