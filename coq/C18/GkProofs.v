(* C18 — lemmas about the glyph keyed core (offset-array builder, dedup, applied bits, permutations) *)
From Coq Require Import ZArith List Bool Lia Permutation.
From FV Require Import Lib.RustInt C18.Model.
Import ListNotations.
Open Scope Z_scope.
Ltac Zify.zify_post_hook ::= Z.div_mod_to_equations.

Lemma len_app {A} (a b : list A) : len (a ++ b) = len a + len b.
Proof. unfold len. rewrite app_length. lia. Qed.
Lemma len_nonneg {A} (a : list A) : 0 <= len a.
Proof. unfold len. lia. Qed.
Lemma len_nil {A} : len (@nil A) = 0. Proof. reflexivity. Qed.
Lemma len_cons {A} (x : A) l : len (x :: l) = 1 + len l.
Proof. unfold len. cbn [length]. lia. Qed.

(* ---------- slices ---------- *)
Lemma slice_full_prefix (s r : bytes) : slice (s ++ r) 0 (len s) = Some s.
Proof.
  unfold slice. rewrite len_app.
  pose proof (len_nonneg s). pose proof (len_nonneg r).
  replace ((0 <=? 0) && (0 <=? len s) && (len s <=? len s + len r)) with true
    by (symmetry; repeat (apply andb_true_intro; split); apply Z.leb_le; lia).
  cbn [Z.to_nat skipn]. rewrite Z.sub_0_r. unfold len. rewrite Nat2Z.id.
  rewrite firstn_app, Nat.sub_diag, firstn_all. cbn. now rewrite app_nil_r.
Qed.

Lemma slice_skip_prefix (s r : bytes) a b : 0 <= a ->
  slice (s ++ r) (len s + a) (len s + b) = slice r a b.
Proof.
  intros Ha. unfold slice. rewrite len_app.
  pose proof (len_nonneg s).
  replace ((0 <=? len s + a) && (len s + a <=? len s + b) && (len s + b <=? len s + len r))
    with ((0 <=? a) && (a <=? b) && (b <=? len r)).
  2:{ f_equal; [f_equal|]; apply eq_true_iff_eq; rewrite !Z.leb_le; lia. }
  destruct ((0 <=? a) && (a <=? b) && (b <=? len r)); [|reflexivity].
  f_equal. replace (len s + b - (len s + a)) with (b - a) by lia.
  f_equal. unfold len. rewrite Z2Nat.inj_add by lia. rewrite Nat2Z.id.
  rewrite skipn_app. rewrite skipn_all2 by lia.
  replace (length s + Z.to_nat a - length s)%nat with (Z.to_nat a) by lia. reflexivity.
Qed.

(* prefix sums of the lengths of a list of slices, starting at w *)
Fixpoint psums (w : Z) (ls : list bytes) : list Z :=
  match ls with [] => [w] | s :: r => w :: psums (w + len s) r end.

Lemma psums_length w ls : length (psums w ls) = S (length ls).
Proof. revert w; induction ls; intros; cbn; [reflexivity | now rewrite IHls]. Qed.

Lemma psums_hd w ls : nth_error (psums w ls) 0 = Some w.
Proof. destruct ls; reflexivity. Qed.

Lemma psums_ge w ls i a : nth_error (psums w ls) i = Some a -> w <= a.
Proof.
  revert w i. induction ls as [|s r IH]; intros w i H.
  - destruct i as [|[|i]]; cbn in H; inversion H; lia.
  - destruct i; cbn in H. + inversion H; lia.
    + apply IH in H. pose proof (len_nonneg s). lia.
Qed.

Lemma psums_ascending w ls : ascending (psums w ls) = true.
Proof.
  revert w. induction ls as [|s r IH]; intros w; [reflexivity|].
  cbn [psums]. specialize (IH (w + len s)).
  pose proof (psums_hd (w + len s) r) as Hh.
  destruct (psums (w + len s) r) as [|z l] eqn:E; [reflexivity|].
  cbn in Hh. inversion Hh; subst z. cbn [ascending] in *.
  apply andb_true_intro; split; [|exact IH]. apply Z.leb_le. pose proof (len_nonneg s). lia.
Qed.

Lemma psums_last w ls : last (psums w ls) 0 = w + len (concat ls).
Proof.
  revert w. induction ls as [|s r IH]; intros w.
  - cbn. lia.
  - cbn [psums concat]. rewrite len_app.
    replace (last (w :: psums (w + len s) r) 0) with (last (psums (w + len s) r) 0).
    + rewrite IH. lia.
    + destruct r; reflexivity.
Qed.

Lemma psums_slice ls : forall w i a b s,
  nth_error (psums w ls) i = Some a -> nth_error (psums w ls) (S i) = Some b ->
  nth_error ls i = Some s -> slice (concat ls) (a - w) (b - w) = Some s.
Proof.
  induction ls as [|x r IH]; intros w i a b s Ha Hb Hs.
  - destruct i; discriminate.
  - destruct i.
    + change (nth_error (psums w (x :: r)) 1) with (nth_error (psums (w + len x) r) 0) in Hb.
      rewrite psums_hd in Hb.
      cbn in Ha, Hs. inversion Ha; inversion Hs; subst. inversion Hb; subst.
      cbn [concat]. replace (a - a) with 0 by lia. replace (a + len s - a) with (len s) by lia.
      apply slice_full_prefix.
    + change (nth_error (psums w (x :: r)) (S i)) with (nth_error (psums (w + len x) r) i) in Ha.
      change (nth_error (psums w (x :: r)) (S (S i))) with (nth_error (psums (w + len x) r) (S i)) in Hb.
      cbn in Hs. cbn [concat].
      pose proof (psums_ge _ _ _ _ Ha).
      replace (a - w) with (len x + (a - (w + len x))) by lia.
      replace (b - w) with (len x + (b - (w + len x))) by lia.
      rewrite slice_skip_prefix by lia. eapply IH; eauto.
Qed.

(* ---------- replacement maps ---------- *)
Inductive gm_ok : gmap -> Prop :=
| gm_ok_nil : gm_ok []
| gm_ok_cons g d r : Forall (fun gd => g < fst gd) r -> gm_ok r -> gm_ok ((g, d) :: r).

Lemma lookup_none_lt {A} (m : list (Z * A)) g : Forall (fun gd => g < fst gd) m -> lookup m g = None.
Proof.
  induction 1 as [|[g' d'] r H _ IH]; [reflexivity|]. cbn in *.
  destruct (Z.eqb_spec g g'); [lia | exact IH].
Qed.

Lemma gm_insert_keys g d m : forall x, In x (map fst (gm_insert g d m)) -> x = g \/ In x (map fst m).
Proof.
  induction m as [|[g' d'] r IH]; intros x H; cbn in *.
  - destruct H; [now left | contradiction].
  - destruct (g <? g'); [cbn in H; destruct H; auto|].
    destruct (g =? g'); [cbn in H; auto|].
    cbn in H. destruct H; [auto|]. apply IH in H. destruct H; auto.
Qed.

Lemma gm_insert_ok g d m : gm_ok m -> gm_ok (gm_insert g d m).
Proof.
  induction 1 as [|g' d' r Hall Hok IH]; cbn.
  - constructor; constructor.
  - destruct (Z.ltb_spec g g').
    + constructor; [|constructor; assumption].
      constructor; [cbn; lia|]. eapply Forall_impl; [|exact Hall]. cbn; intros; lia.
    + destruct (Z.eqb_spec g g'); [constructor; assumption|].
      constructor; [|exact IH].
      apply Forall_forall. intros [x dx] Hin.
      assert (Hk : In x (map fst (gm_insert g d r))) by (apply in_map_iff; exists (x, dx); auto).
      apply gm_insert_keys in Hk. cbn. destruct Hk as [->|Hk]; [lia|].
      apply in_map_iff in Hk. destruct Hk as [[y dy] [<- Hy]].
      rewrite Forall_forall in Hall. apply (Hall _ Hy).
Qed.

Lemma gm_insert_lookup g d m x : gm_ok m ->
  lookup (gm_insert g d m) x =
  if x =? g then (match lookup m g with Some d0 => Some d0 | None => Some d end) else lookup m x.
Proof.
  induction 1 as [|g' d' r Hall Hok IH]; cbn.
  - destruct (x =? g); reflexivity.
  - destruct (Z.ltb_spec g g').
    + cbn. destruct (Z.eqb_spec x g).
      * subst. destruct (Z.eqb_spec g g'); [lia|].
        rewrite lookup_none_lt; [reflexivity|]. eapply Forall_impl; [|exact Hall]. cbn; intros; lia.
      * reflexivity.
    + destruct (Z.eqb_spec g g').
      * subst. cbn. destruct (Z.eqb_spec x g'); [subst; try rewrite Z.eqb_refl; reflexivity | reflexivity].
      * cbn. rewrite IH. destruct (Z.eqb_spec x g').
        -- destruct (Z.eqb_spec x g); [lia | reflexivity].
        -- destruct (Z.eqb_spec x g); [|reflexivity]. subst.
           destruct (Z.eqb_spec g g'); [lia | reflexivity].
Qed.

(* first item for a gid in a list of items *)
Fixpoint first_data (items : list (Z * bytes)) (g : Z) : option bytes :=
  match items with [] => None | (g', d) :: r => if g =? g' then Some d else first_data r g end.

Lemma gm_insert_all_ok items m : gm_ok m -> gm_ok (gm_insert_all items m).
Proof.
  unfold gm_insert_all. revert m. induction items as [|[g d] r IH]; intros m H; cbn; [exact H|].
  apply IH. now apply gm_insert_ok.
Qed.

Lemma gm_insert_all_lookup items : forall m x, gm_ok m ->
  lookup (gm_insert_all items m) x =
  match lookup m x with Some d => Some d | None => first_data items x end.
Proof.
  unfold gm_insert_all. induction items as [|[g d] r IH]; intros m x H; cbn [fold_left first_data fst snd].
  - destruct (lookup m x); reflexivity.
  - rewrite IH by now apply gm_insert_ok. rewrite gm_insert_lookup by assumption.
    destruct (Z.eqb_spec x g).
    + subst. destruct (lookup m g); reflexivity.
    + reflexivity.
Qed.

Lemma first_data_in items g d : first_data items g = Some d -> In (g, d) items.
Proof.
  induction items as [|[g' d'] r IH]; cbn; [discriminate|].
  destruct (Z.eqb_spec g g'); intros H; [inversion H; subst; now left | right; auto].
Qed.
Lemma first_data_none items g : first_data items g = None -> forall d, ~ In (g, d) items.
Proof.
  induction items as [|[g' d'] r IH]; cbn; [tauto|].
  destruct (Z.eqb_spec g g'); [discriminate|]. intros H d [E|Hin]; [inversion E; lia | eapply IH; eauto].
Qed.

(* extensionality of ok maps *)
Lemma gm_ext m1 : forall m2, gm_ok m1 -> gm_ok m2 -> (forall x, lookup m1 x = lookup m2 x) -> m1 = m2.
Proof.
  induction m1 as [|[g1 d1] r1 IH]; intros m2 H1 H2 E.
  - destruct m2 as [|[g2 d2] r2]; [reflexivity|]. specialize (E g2). cbn in E.
    rewrite Z.eqb_refl in E. discriminate.
  - destruct m2 as [|[g2 d2] r2].
    + specialize (E g1). cbn in E. rewrite Z.eqb_refl in E. discriminate.
    + inversion H1 as [|? ? ? A1 O1]; inversion H2 as [|? ? ? A2 O2]; subst.
      assert (g1 = g2).
      { pose proof (E g1) as E1. pose proof (E g2) as E2. cbn in E1, E2.
        rewrite Z.eqb_refl in E1, E2.
        destruct (Z.eqb_spec g1 g2); [assumption|].
        destruct (Z.eqb_spec g2 g1); [lia|].
        destruct (Z.lt_total g1 g2) as [L|[L|L]]; [|lia|].
        - rewrite (lookup_none_lt r2 g1) in E1; [discriminate|].
          eapply Forall_impl; [|exact A2]. cbn; intros; lia.
        - rewrite (lookup_none_lt r1 g2) in E2; [discriminate|].
          eapply Forall_impl; [|exact A1]. cbn; intros; lia. }
      subst g2. pose proof (E g1) as E1. cbn in E1. rewrite Z.eqb_refl in E1. inversion E1; subst d2.
      f_equal. apply IH; try assumption. intros x. specialize (E x). cbn in E.
      destruct (Z.eqb_spec x g1); [|exact E]. subst.
      rewrite !lookup_none_lt by assumption. reflexivity.
Qed.

(* ---------- the builder ---------- *)
Definition old_slice (offs : list Z) (data : bytes) (g : Z) : option bytes :=
  match nthZ offs g, nthZ offs (g + 1) with
  | Some s, Some e => slice data s e
  | _, _ => None
  end.
Definition padded (T : otype) (d : bytes) : bytes := d ++ repeat 0 (Z.to_nat (padding T (len d))).
(* what the new font must contain for glyph g *)
Definition new_slice (T : otype) (repl : gmap) (offs : list Z) (data : bytes) (g : Z) : option bytes :=
  match lookup repl g with Some d => Some (padded T d) | None => old_slice offs data g end.

Lemma build_loop_spec : forall n gid repl offs data T w os ds,
  build_loop n gid repl offs data T w = inr (os, ds) ->
  gm_ok repl -> Forall (fun gd => gid <= fst gd) repl ->
  exists sls, length sls = n /\ ds = concat sls /\ os = psums w sls /\
    forall i s, nth_error sls i = Some s -> new_slice T repl offs data (gid + Z.of_nat i) = Some s.
Proof.
  induction n as [|n IH]; intros gid repl offs data T w os ds H Hok Hge.
  - cbn in H. destruct (off_fits T w); [|discriminate]. inversion H; subst.
    exists []. repeat split; try reflexivity. intros [|i] s Hs; discriminate.
  - cbn [build_loop] in H.
    assert (Hkeep : lookup repl gid = None ->
      match nthZ offs gid, nthZ offs (gid + 1) with
      | Some s, Some e =>
          match slice data s e with
          | Some sl => if off_fits T w
                       then let? (os, ds) := build_loop n (gid + 1) repl offs data T (w + (e - s)) in
                            inr (w :: os, sl ++ ds)
                       else inl (8, 0)
          | None => inl (2, 1)
          end
      | _, _ => inl (6, 10)
      end = inr (os, ds) ->
      Forall (fun gd => gid + 1 <= fst gd) repl ->
      exists sls, length sls = S n /\ ds = concat sls /\ os = psums w sls /\
        forall i s, nth_error sls i = Some s -> new_slice T repl offs data (gid + Z.of_nat i) = Some s).
    { intros Hnone K Hge'.
      destruct (nthZ offs gid) as [s0|] eqn:E1; [|discriminate].
      destruct (nthZ offs (gid + 1)) as [e0|] eqn:E2; [|discriminate].
      destruct (slice data s0 e0) as [sl|] eqn:E3; [|discriminate].
      destruct (off_fits T w); [|discriminate].
      destruct (build_loop n (gid + 1) repl offs data T (w + (e0 - s0))) as [?|[os' ds']] eqn:E4; [discriminate|].
      cbn in K. inversion K; subst.
      destruct (IH _ _ _ _ _ _ _ _ E4 Hok Hge') as [sls [L [D [O P]]]].
      assert (Hlen : len sl = e0 - s0).
      { unfold slice in E3. destruct ((0 <=? s0) && (s0 <=? e0) && (e0 <=? len data)) eqn:G; [|discriminate].
        inversion E3. apply andb_prop in G. destruct G as [G G3]. apply andb_prop in G. destruct G as [G1 G2].
        apply Z.leb_le in G1, G2, G3. unfold len in *. rewrite firstn_length, skipn_length. lia. }
      exists (sl :: sls). repeat split.
      - cbn. now rewrite L.
      - cbn. now rewrite D.
      - cbn [psums]. now rewrite Hlen, O.
      - intros [|i] s Hs.
        + cbn in Hs. inversion Hs; subst. unfold new_slice, old_slice.
          rewrite Z.add_0_r, Hnone, E1, E2. exact E3.
        + cbn in Hs. apply P in Hs. rewrite <- Hs. f_equal. lia. }
    destruct repl as [|[g d] r'].
    + apply Hkeep; [reflexivity | exact H | constructor].
    + destruct (Z.eqb_spec g gid).
      * subst g. destruct (off_fits T w); [|discriminate].
        destruct (build_loop n (gid + 1) r' offs data T (w + len d + padding T (len d))) as [?|[os' ds']] eqn:E4; [discriminate|].
        cbn in H. inversion H; subst.
        inversion Hok as [|? ? ? Hall Hok']; subst.
        assert (Hge' : Forall (fun gd => gid + 1 <= fst gd) r').
        { eapply Forall_impl; [|exact Hall]. cbn; intros; lia. }
        destruct (IH _ _ _ _ _ _ _ _ E4 Hok' Hge') as [sls [L [D [O P]]]].
        exists (padded T d :: sls). repeat split.
        -- cbn. now rewrite L.
        -- cbn. rewrite D. unfold padded. now rewrite <- app_assoc.
        -- cbn [psums]. rewrite O. do 2 f_equal. unfold padded. rewrite len_app.
           assert (Hr : len (repeat 0 (Z.to_nat (padding T (len d)))) = Z.of_nat (Z.to_nat (padding T (len d))))
             by (unfold len; now rewrite repeat_length).
           rewrite Hr.
           assert (0 <= padding T (len d)).
           { unfold padding. destruct (1 <? ot_div T) eqn:G; [|lia]. apply Z.ltb_lt in G.
             apply Z.mod_pos_bound. lia. }
           lia.
        -- intros [|i] s Hs.
           ++ cbn in Hs. inversion Hs; subst. unfold new_slice. cbn [lookup].
              now rewrite Z.add_0_r, Z.eqb_refl.
           ++ cbn in Hs. apply P in Hs. rewrite <- Hs. unfold new_slice. cbn [lookup].
              replace (gid + Z.of_nat (S i)) with (gid + 1 + Z.of_nat i) by lia.
              destruct (Z.eqb_spec (gid + 1 + Z.of_nat i) gid); [lia|]. reflexivity.
      * inversion Hge as [|? ? Hg Hge0]; subst. cbn in Hg.
        apply Hkeep; [| exact H |].
        -- cbn [lookup]. destruct (Z.eqb_spec gid g); [lia|].
           inversion Hok; subst. apply lookup_none_lt.
           eapply Forall_impl; [|eassumption]. cbn; intros; lia.
        -- constructor; [cbn; lia|]. inversion Hok; subst.
           eapply Forall_impl; [|eassumption]. cbn; intros; lia.
Qed.

Lemma build_loop_fits : forall n gid repl offs data T w os ds,
  build_loop n gid repl offs data T w = inr (os, ds) -> Forall (fun x => off_fits T x = true) os.
Proof.
  induction n as [|n IH]; intros gid repl offs data T w os ds H.
  - cbn in H. destruct (off_fits T w) eqn:F; [|discriminate]. inversion H; subst. repeat constructor. exact F.
  - cbn [build_loop] in H.
    assert (K : forall repl',
      match nthZ offs gid, nthZ offs (gid + 1) with
      | Some s, Some e =>
          match slice data s e with
          | Some sl => if off_fits T w
                       then let? (os, ds) := build_loop n (gid + 1) repl' offs data T (w + (e - s)) in
                            inr (w :: os, sl ++ ds)
                       else inl (8, 0)
          | None => inl (2, 1)
          end
      | _, _ => inl (6, 10)
      end = inr (os, ds) -> Forall (fun x => off_fits T x = true) os).
    { intros repl' K.
      destruct (nthZ offs gid); [|discriminate]. destruct (nthZ offs (gid + 1)); [|discriminate].
      destruct (slice data z z0); [|discriminate]. destruct (off_fits T w) eqn:F; [|discriminate].
      destruct (build_loop n (gid + 1) repl' offs data T (w + (z0 - z))) as [?|[os' ds']] eqn:E; [discriminate|].
      cbn in K. inversion K; subst. constructor; [exact F | eapply IH; eauto]. }
    destruct repl as [|[g d] r']; [eapply K; eauto|].
    destruct (g =? gid); [|eapply K; eauto].
    destruct (off_fits T w) eqn:F; [|discriminate].
    destruct (build_loop n (gid + 1) r' offs data T (w + len d + padding T (len d))) as [?|[os' ds']] eqn:E; [discriminate|].
    cbn in H. inversion H; subst. constructor; [exact F | eapply IH; eauto].
Qed.

(* ---------- dedup ---------- *)
Lemma dedup_inv views t m : dedup views t = inr m ->
  exists items, mapM (fun v => gp_items v t) views = inr items /\ m = gm_insert_all (concat items) [].
Proof.
  unfold dedup. destruct (mapM (fun v => gp_items v t) views) as [e|items]; cbn; [discriminate|].
  intros H; inversion H. eauto.
Qed.
Lemma dedup_ok views t m : dedup views t = inr m -> gm_ok m.
Proof. intros H. apply dedup_inv in H. destruct H as [items [_ ->]]. apply gm_insert_all_ok. constructor. Qed.
(* first patch wins: the data kept for a gid is the first one listed for it, in patch order *)
Lemma dedup_first_wins views t m : dedup views t = inr m ->
  exists items, mapM (fun v => gp_items v t) views = inr items /\
                forall g, lookup m g = first_data (concat items) g.
Proof.
  intros H. apply dedup_inv in H. destruct H as [items [E ->]]. exists items. split; [exact E|].
  intros g. rewrite gm_insert_all_lookup by constructor. reflexivity.
Qed.

(* ---------- patch_offset_array ---------- *)
Lemma poa_inv views t offs data T avail maxgid T' os ds :
  patch_offset_array views t offs data T avail maxgid = inr (T', os, ds) ->
  exists m total, dedup views t = inr m /\ choose_type T avail total = inr T' /\
    (last (map fst m) 0 <= maxgid) /\ ascending offs = true /\
    build_loop (Z.to_nat (maxgid + 1)) 0 m offs data T' 0 = inr (os, ds).
Proof.
  unfold patch_offset_array. destruct (dedup views t) as [[? ?]|m]; [discriminate|].
  destruct (retained_total _ offs 0) as [?|total0]; cbn [bind]; [discriminate|].
  match goal with |- context [choose_type T avail ?tt] => set (total := tt) end.
  destruct (choose_type T avail total) as [?|T0] eqn:C; cbn [bind]; [discriminate|].
  destruct (last (map fst m) 0 >? maxgid) eqn:L; [discriminate|].
  destruct (ascending offs) eqn:A; cbn [negb]; [|discriminate].
  destruct (build_loop _ 0 m offs data T0 0) as [?|[os0 ds0]] eqn:B; cbn [bind]; [discriminate|].
  intros H; inversion H; subst. exists m, total. repeat split; auto. lia.
Qed.

Lemma nthZ_nth {A} (l : list A) g : 0 <= g -> nthZ l g = nth_error l (Z.to_nat g).
Proof. intros. unfold nthZ. destruct (Z.ltb_spec g 0); [lia | reflexivity]. Qed.

Lemma poa_exact views t offs data T avail maxgid T' os ds :
  patch_offset_array views t offs data T avail maxgid = inr (T', os, ds) -> 0 <= maxgid ->
  exists m, dedup views t = inr m /\
   (Forall (fun gd => 0 <= fst gd) m ->
    forall g, 0 <= g <= maxgid ->
      exists a b s, nthZ os g = Some a /\ nthZ os (g + 1) = Some b /\
                    new_slice T' m offs data g = Some s /\ slice ds a b = Some s).
Proof.
  intros H Hm. apply poa_inv in H. destruct H as [m [total [D [_ [_ [_ B]]]]]].
  exists m. split; [exact D|]. intros Hnn g Hg.
  destruct (build_loop_spec _ _ _ _ _ _ _ _ _ B (dedup_ok _ _ _ D) Hnn) as [sls [L [-> [-> P]]]].
  assert (Hi : (Z.to_nat g < length sls)%nat) by lia.
  destruct (nth_error sls (Z.to_nat g)) as [s|] eqn:Es; [|apply nth_error_None in Es; lia].
  assert (Ha : exists a, nth_error (psums 0 sls) (Z.to_nat g) = Some a).
  { destruct (nth_error (psums 0 sls) (Z.to_nat g)) eqn:E; [eauto|].
    apply nth_error_None in E. rewrite psums_length in E. exfalso. clear - Hi E. unfold bytes in *. lia. }
  assert (Hb : exists b, nth_error (psums 0 sls) (S (Z.to_nat g)) = Some b).
  { destruct (nth_error (psums 0 sls) (S (Z.to_nat g))) eqn:E; [eauto|].
    apply nth_error_None in E. rewrite psums_length in E. exfalso. clear - Hi E. unfold bytes in *. lia. }
  destruct Ha as [a Ha], Hb as [b Hb]. exists a, b, s.
  rewrite !nthZ_nth by lia. replace (Z.to_nat (g + 1)) with (S (Z.to_nat g)) by lia.
  repeat split; auto.
  - specialize (P _ _ Es). rewrite Z2Nat.id in P by lia. exact P.
  - pose proof (psums_slice sls 0 _ a b s Ha Hb Es) as Q. now rewrite !Z.sub_0_r in Q.
Qed.

Lemma poa_offsets views t offs data T avail maxgid T' os ds :
  patch_offset_array views t offs data T avail maxgid = inr (T', os, ds) -> 0 <= maxgid ->
  (forall m, dedup views t = inr m -> Forall (fun gd => 0 <= fst gd) m) ->
  ascending os = true /\ len os = maxgid + 2 /\ nthZ os 0 = Some 0 /\ last os 0 = len ds /\
  Forall (fun x => off_fits T' x = true) os.
Proof.
  intros H Hm Hnn. apply poa_inv in H. destruct H as [m [total [D [_ [_ [_ B]]]]]].
  pose proof (build_loop_fits _ _ _ _ _ _ _ _ _ B) as F.
  destruct (build_loop_spec _ _ _ _ _ _ _ _ _ B (dedup_ok _ _ _ D) (Hnn _ D)) as [sls [L [-> [-> P]]]].
  repeat split.
  - apply psums_ascending.
  - unfold len. rewrite psums_length. unfold bytes in *. rewrite L. lia.
  - unfold nthZ. cbn. apply psums_hd.
  - rewrite psums_last. lia.
  - exact F.
Qed.

(* the upgrade decision *)
Lemma choose_type_spec T avail total T' : choose_type T avail total = inr T' ->
  (total <= ot_max T /\ T' = T) \/
  (ot_max T < total /\ total <= ot_max T' /\
   exists pre post, avail = pre ++ T' :: post /\ Forall (fun c => ot_max c < total) pre).
Proof.
  unfold choose_type. destruct (Z.gtb_spec total (ot_max T)).
  - destruct (find (fun c => total <=? ot_max c) avail) as [c|] eqn:F; [|discriminate].
    intros E; inversion E; subst. right. split; [lia|].
    clear E. induction avail as [|x r IH]; [discriminate|]. cbn in F.
    destruct (Z.leb_spec total (ot_max x)).
    + inversion F; subst. split; [lia|]. exists [], r. split; [reflexivity | constructor].
    + destruct (IH F) as [L [pre [post [-> Hp]]]]. split; [exact L|].
      exists (x :: pre), post. split; [reflexivity|]. constructor; [lia | exact Hp].
  - intros E; inversion E; subst. left. split; [assumption | reflexivity].
Qed.

(* ---------- permutations ---------- *)
Lemma mapM_cons_inv {A B} (f : A -> res B) x l ys : mapM f (x :: l) = inr ys ->
  exists y ys0, f x = inr y /\ mapM f l = inr ys0 /\ ys = y :: ys0.
Proof.
  cbn. destruct (f x) as [?|y]; cbn; [discriminate|]. destruct (mapM f l) as [?|ys0]; cbn; [discriminate|].
  intros H; inversion H. eauto.
Qed.
Lemma mapM_cons_intro {A B} (f : A -> res B) x l y ys0 : f x = inr y -> mapM f l = inr ys0 ->
  mapM f (x :: l) = inr (y :: ys0).
Proof. intros H1 H2. cbn. rewrite H1. cbn. rewrite H2. reflexivity. Qed.

Lemma mapM_perm {A B} (f : A -> res B) l l' : Permutation l l' -> forall ys, mapM f l = inr ys ->
  exists ys', mapM f l' = inr ys' /\ Permutation ys ys'.
Proof.
  induction 1 as [|x l l' HP IH|x y l|l l' l'' H1 IH1 H2 IH2]; intros ys H.
  - exists ys. split; [exact H|]. cbn in H. inversion H. constructor.
  - apply mapM_cons_inv in H. destruct H as [y [ys0 [Fx [M ->]]]].
    destruct (IH _ M) as [ys' [M' P]]. exists (y :: ys'). split; [now apply mapM_cons_intro | now constructor].
  - apply mapM_cons_inv in H. destruct H as [b [ys0 [Fy [M ->]]]].
    apply mapM_cons_inv in M. destruct M as [a [ys1 [Fx [M ->]]]].
    exists (a :: b :: ys1). split; [|constructor].
    apply mapM_cons_intro; [exact Fx|]. now apply mapM_cons_intro.
  - destruct (IH1 _ H) as [ys' [M' P']]. destruct (IH2 _ M') as [ys'' [M'' P'']].
    exists ys''. split; [exact M''|]. eapply Permutation_trans; eauto.
Qed.

Lemma Permutation_concat {A} (l l' : list (list A)) : Permutation l l' -> Permutation (concat l) (concat l').
Proof.
  induction 1; cbn.
  - constructor.
  - now apply Permutation_app_head.
  - rewrite !app_assoc. apply Permutation_app_tail. apply Permutation_app_comm.
  - eapply Permutation_trans; eauto.
Qed.

Lemma forallb_perm {A} (p : A -> bool) l l' : Permutation l l' -> forallb p l = forallb p l'.
Proof.
  induction 1; cbn; [reflexivity | now rewrite IHPermutation | destruct (p x), (p y); reflexivity | congruence].
Qed.
Lemma existsb_perm {A} (p : A -> bool) l l' : Permutation l l' -> existsb p l = existsb p l'.
Proof.
  induction 1; cbn; [reflexivity | now rewrite IHPermutation | destruct (p x), (p y); reflexivity | congruence].
Qed.

(* items that agree on shared glyph ids *)
Definition items_agree (its : list (Z * bytes)) : Prop :=
  forall g d1 d2, In (g, d1) its -> In (g, d2) its -> d1 = d2.

Lemma first_data_perm its its' g : Permutation its its' -> items_agree its ->
  first_data its' g = first_data its g.
Proof.
  intros P A.
  destruct (first_data its g) as [d|] eqn:E1; destruct (first_data its' g) as [d'|] eqn:E2; try reflexivity.
  - apply first_data_in in E1, E2. f_equal. apply (A g); [|exact E1].
    eapply Permutation_in; [apply Permutation_sym; exact P | exact E2].
  - apply first_data_in in E1. exfalso. eapply first_data_none; [exact E2|].
    eapply Permutation_in; [exact P | exact E1].
  - apply first_data_in in E2. exfalso. eapply first_data_none; [exact E1|].
    eapply Permutation_in; [apply Permutation_sym; exact P | exact E2].
Qed.

Lemma gm_insert_all_perm its its' : Permutation its its' -> items_agree its ->
  gm_insert_all its' [] = gm_insert_all its [].
Proof.
  intros P A. apply gm_ext; try (apply gm_insert_all_ok; constructor).
  intros x. rewrite !gm_insert_all_lookup by constructor. cbn. now apply first_data_perm.
Qed.

(* the patches' data for table t agree wherever two of them list the same glyph *)
Definition views_agree (t : Z) (views : list gp) : Prop :=
  forall items, mapM (fun v => gp_items v t) views = inr items -> items_agree (concat items).

Lemma dedup_perm t views views' m : Permutation views views' -> views_agree t views ->
  dedup views t = inr m -> dedup views' t = inr m.
Proof.
  intros P A D. apply dedup_inv in D. destruct D as [items [M ->]].
  destruct (mapM_perm _ _ _ P _ M) as [items' [M' P']].
  unfold dedup. rewrite M'. cbn. f_equal.
  apply gm_insert_all_perm; [now apply Permutation_concat | now apply A].
Qed.

Lemma poa_perm t views views' offs data T avail maxgid r : Permutation views views' -> views_agree t views ->
  patch_offset_array views t offs data T avail maxgid = inr r ->
  patch_offset_array views' t offs data T avail maxgid = inr r.
Proof.
  intros P A H. unfold patch_offset_array in *.
  destruct (dedup views t) as [[? ?]|m] eqn:D; [discriminate|].
  rewrite (dedup_perm _ _ _ _ P A D). exact H.
Qed.

Lemma patch_glyf_perm f views views' maxgid r : Permutation views views' -> views_agree T_glyf views ->
  patch_glyf f views maxgid = inr r -> patch_glyf f views' maxgid = inr r.
Proof.
  intros P A H. unfold patch_glyf in *.
  destruct (lookup f T_glyf) as [glyf|]; [|discriminate].
  destruct (read_loca f) as [[T offs]|]; [|discriminate].
  destruct (patch_offset_array views T_glyf offs glyf T [T] maxgid) as [?|x] eqn:E; [discriminate|].
  rewrite (poa_perm _ _ _ _ _ _ _ _ _ P A E). exact H.
Qed.

(* applied bits *)
Lemma set_bit_comm : forall d i b j c,
  match set_bit d i b with Some d1 => set_bit d1 j c | None => None end =
  match set_bit d j c with Some d2 => set_bit d2 i b | None => None end.
Proof.
  induction d as [|x r IH]; intros [|i] b [|j] c; cbn; try reflexivity.
  - do 2 f_equal. rewrite <- !Z.lor_assoc. f_equal. apply Z.lor_comm.
  - destruct (set_bit r j c); reflexivity.
  - destruct (set_bit r i b); reflexivity.
  - specialize (IH i b j c).
    destruct (set_bit r i b) as [r1|]; destruct (set_bit r j c) as [r2|]; cbn in *;
      [now rewrite IH | now rewrite IH | now rewrite <- IH | reflexivity].
Qed.

Lemma mark_applied_comm st x y :
  (let? s := mark_applied st x in mark_applied s y) = (let? s := mark_applied st y in mark_applied s x).
Proof.
  destruct st as [ift iftx]. unfold mark_applied.
  destruct (pi_tbl x =? 0), (pi_tbl y =? 0); destruct ift as [a|], iftx as [b|]; cbn; try reflexivity;
  try (pose proof (set_bit_comm a (Z.to_nat (pi_bit x / 8)) (pi_bit x mod 8) (Z.to_nat (pi_bit y / 8)) (pi_bit y mod 8)) as C);
  try (pose proof (set_bit_comm b (Z.to_nat (pi_bit x / 8)) (pi_bit x mod 8) (Z.to_nat (pi_bit y / 8)) (pi_bit y mod 8)) as C');
  repeat match goal with
         | |- context [set_bit ?d ?i ?c] => destruct (set_bit d i c) eqn:?; cbn
         end; try reflexivity; try congruence;
  repeat match goal with
         | H : context [set_bit ?d ?i ?c] |- _ => destruct (set_bit d i c) eqn:?; cbn in *
         end; try reflexivity; try congruence.
Qed.

Lemma mark_all_perm l l' : Permutation l l' -> forall st, mark_all st l = mark_all st l'.
Proof.
  induction 1 as [|x l l' HP IH|x y l|l l' l'' H1 IH1 H2 IH2]; intros st.
  - reflexivity.
  - cbn. destruct (mark_applied st x); cbn; [reflexivity | apply IH].
  - cbn. pose proof (mark_applied_comm st y x) as C.
    destruct (mark_applied st y) as [e1|s1] eqn:E1; destruct (mark_applied st x) as [e2|s2] eqn:E2; cbn in *.
    + (* both fail: the only error is InternalError *)
      unfold mark_applied in E1, E2. destruct st as [a b].
      repeat match goal with
             | H : context [if ?c then _ else _] |- _ => destruct c
             | H : context [match ?o with Some _ => _ | None => _ end] |- _ => destruct o; cbn in H
             end; try discriminate; inversion E1; inversion E2; reflexivity.
    + rewrite <- C. reflexivity.
    + rewrite C. reflexivity.
    + destruct (mark_applied s1 x) as [?|s3]; destruct (mark_applied s2 y) as [?|s4]; cbn; try discriminate;
        inversion C; subst; reflexivity.
  - rewrite IH1. apply IH2.
Qed.

Theorem gk_core_perm f (ivs ivs' : list (pinfo * gp)) F :
  Permutation ivs ivs' -> views_agree T_glyf (map snd ivs) ->
  gk_core f (map fst ivs) (map snd ivs) = inr F -> gk_core f (map fst ivs') (map snd ivs') = inr F.
Proof.
  intros P A H.
  pose proof (Permutation_map fst P) as Pi. pose proof (Permutation_map snd P) as Pv.
  unfold gk_core, lists_tag in *.
  rewrite <- (forallb_perm _ _ _ Pv). rewrite <- !(existsb_perm _ _ _ Pv).
  rewrite <- (mark_all_perm _ _ Pi).
  destruct (lookup f T_maxp) as [mx|]; [|cbn in H; discriminate].
  destruct (uN_at 2 mx 4) as [ng|]; [|cbn in H; discriminate]. cbn [bind] in *.
  destruct (ng =? 0); [discriminate|].
  destruct (forallb (fun v => strictly_ascending (gp_tables v)) (map snd ivs)); cbn [negb] in *; [|discriminate].
  destruct (existsb (fun v => memZ T_CFF (gp_tables v)) (map snd ivs)); [discriminate|].
  destruct (existsb (fun v => memZ T_CFF2 (gp_tables v)) (map snd ivs)); [discriminate|].
  destruct (existsb (fun v => memZ T_glyf (gp_tables v)) (map snd ivs)); [|exact H].
  destruct (patch_glyf f (map snd ivs) (ng - 1)) as [?|r] eqn:G; [discriminate|].
  rewrite (patch_glyf_perm _ _ _ _ _ Pv A G). exact H.
Qed.

(* ---------- font maps ---------- *)
Lemma lookup_fb_add t d f x : lookup (fb_add t d f) x = if x =? t then Some d else lookup f x.
Proof.
  induction f as [|[t' d'] r IH]; cbn.
  - destruct (x =? t); reflexivity.
  - destruct (Z.ltb_spec t t').
    + cbn. destruct (Z.eqb_spec x t); reflexivity.
    + destruct (Z.eqb_spec t t').
      * subst. cbn. destruct (Z.eqb_spec x t'); reflexivity.
      * cbn. rewrite IH. destruct (Z.eqb_spec x t'); [|reflexivity].
        destruct (Z.eqb_spec x t); [lia | reflexivity].
Qed.

Lemma memZ_true x l : memZ x l = true <-> In x l.
Proof.
  unfold memZ. rewrite existsb_exists. split.
  - intros [y [Hy E]]. apply Z.eqb_eq in E. now subst.
  - intros H. exists x. split; [exact H | apply Z.eqb_refl].
Qed.

Lemma lookup_not_in {A} (f : list (Z * A)) x : ~ In x (map fst f) -> lookup f x = None.
Proof.
  induction f as [|[t d] r IH]; cbn; [reflexivity|]. intros H.
  destruct (Z.eqb_spec x t); [exfalso; apply H; now left|]. apply IH. tauto.
Qed.

Lemma lookup_copy_unprocessed f processed : NoDup (map fst f) -> forall fb x,
  lookup (copy_unprocessed f processed fb) x =
  if memZ x processed then lookup fb x
  else match lookup f x with Some d => Some d | None => lookup fb x end.
Proof.
  unfold copy_unprocessed. induction f as [|[t d] r IH]; intros ND fb x; cbn [fold_left fst snd lookup].
  - destruct (memZ x processed); reflexivity.
  - inversion ND as [|? ? Hn ND']; subst. rewrite IH by assumption.
    destruct (memZ x processed) eqn:Mx.
    + destruct (memZ t processed) eqn:Mt; [reflexivity|]. rewrite lookup_fb_add.
      destruct (Z.eqb_spec x t); [subst; congruence | reflexivity].
    + destruct (Z.eqb_spec x t).
      * subst. rewrite (lookup_not_in r t Hn). rewrite Mx. rewrite lookup_fb_add, Z.eqb_refl. reflexivity.
      * destruct (memZ t processed); [reflexivity|]. rewrite lookup_fb_add.
        destruct (Z.eqb_spec x t); [lia | reflexivity].
Qed.

(* every table other than glyf / loca / IFT / IFTX is byte-identical after glyph keyed application,
   none appears and none disappears *)
Lemma gk_core_other_tables f infos views F x : NoDup (map fst f) ->
  gk_core f infos views = inr F ->
  x <> T_glyf -> x <> T_loca -> x <> T_IFT -> x <> T_IFTX -> lookup F x = lookup f x.
Proof.
  intros ND H N1 N2 N3 N4. unfold gk_core in H.
  destruct (lookup f T_maxp) as [mx|]; [|cbn in H; discriminate].
  destruct (uN_at 2 mx 4) as [ng|]; [|cbn in H; discriminate]. cbn [bind] in H.
  destruct (ng =? 0); [discriminate|].
  destruct (forallb _ views); cbn [negb] in H; [|discriminate].
  destruct (lists_tag views T_CFF); [discriminate|].
  destruct (lists_tag views T_CFF2); [discriminate|].
  assert (K : forall processed fb,
     (forall y, In y processed -> y = T_glyf \/ y = T_loca \/ y = T_IFT \/ y = T_IFTX) ->
     lookup fb x = None ->
     (if lists_tag views T_gvar
      then match lookup f T_gvar with Some _ => inl (98, 3) | None => inl (6, 17) end
      else let? (ift', iftx') := mark_all (lookup f T_IFT, lookup f T_IFTX) infos in
           let fb := match ift' with Some d => fb_add T_IFT d fb | None => fb end in
           let fb := match iftx' with Some d => fb_add T_IFTX d fb | None => fb end in
           inr (copy_unprocessed f processed fb)) = inr F -> lookup F x = lookup f x).
  { intros processed fb Hp Hfb K.
    destruct (lists_tag views T_gvar); [destruct (lookup f T_gvar); discriminate|].
    destruct (mark_all _ infos) as [?|[ift' iftx']]; cbn [bind] in K; [discriminate|].
    inversion K; subst F. rewrite lookup_copy_unprocessed by assumption.
    destruct (memZ x processed) eqn:M.
    { apply memZ_true in M. apply Hp in M. lia. }
    destruct (lookup f x); [reflexivity|].
    destruct iftx'; destruct ift'; rewrite ?lookup_fb_add;
      repeat match goal with |- context [x =? ?t] => destruct (Z.eqb_spec x t); [lia|] end; exact Hfb. }
  destruct (lists_tag views T_glyf).
  - destruct (patch_glyf f views (ng - 1)) as [?|[g' l']]; cbn [bind] in H; [discriminate|].
    eapply K; [| |exact H].
    + cbn. intros y [<-|[<-|[<-|[<-|[]]]]]; auto.
    + rewrite !lookup_fb_add.
      destruct (Z.eqb_spec x T_loca); [lia|]. destruct (Z.eqb_spec x T_glyf); [lia|]. reflexivity.
  - cbn [bind] in H. eapply K; [| |exact H].
    + cbn. intros y [<-|[<-|[]]]; auto.
    + reflexivity.
Qed.

(* ---------- bookkeeping ---------- *)
Lemma apply_next_error_leaves_bookkeeping dec f inv noninv st e st' :
  apply_next dec f inv noninv st = (inl e, st') -> st' = st.
Proof.
  assert (K : apply_non_invalidating dec f noninv st = (inl e, st') -> st' = st).
  { unfold apply_non_invalidating. destruct (accumulate st noninv) as [?|[|a acc]].
    - intros H; now inversion H.
    - intros H; now inversion H.
    - destruct (apply_glyph_keyed_patches dec f (a :: acc)); intros H; inversion H; reflexivity. }
  unfold apply_next. destruct inv as [p|]; [|exact K].
  destruct (lookup st (pi_uri p)) as [[data|]|]; [| exact K | intros H; now inversion H].
  destruct (apply_table_keyed_patch dec f p data); intros H; inversion H; reflexivity.
Qed.

(* on success exactly the applied URIs are flipped: an invalidating patch flips only its own URI,
   otherwise every non-invalidating URI of the group present in the map becomes Applied *)
Lemma apply_next_success_flips dec f inv noninv st F st' :
  apply_next dec f inv noninv st = (inr F, st') ->
  (exists p, inv = Some p /\ (exists d, lookup st (pi_uri p) = Some (Some d)) /\ st' = set_applied st (pi_uri p)) \/
  st' = fold_left (fun s i => set_applied s (pi_uri i)) noninv st.
Proof.
  assert (K : apply_non_invalidating dec f noninv st = (inr F, st') ->
              st' = fold_left (fun s i => set_applied s (pi_uri i)) noninv st).
  { unfold apply_non_invalidating. destruct (accumulate st noninv) as [?|[|a acc]]; try (intros H; now inversion H).
    destruct (apply_glyph_keyed_patches dec f (a :: acc)); intros H; inversion H; reflexivity. }
  unfold apply_next. destruct inv as [p|]; [|intros H; right; auto].
  destruct (lookup st (pi_uri p)) as [[data|]|] eqn:L; [| intros H; right; auto | intros H; now inversion H].
  destruct (apply_table_keyed_patch dec f p data); intros H; inversion H. left. exists p. eauto.
Qed.

Lemma set_applied_other st u x : x <> u -> lookup (set_applied st u) x = lookup st x.
Proof.
  intros N. induction st as [|[k v] r IH]; cbn; [reflexivity|].
  destruct (Z.eqb_spec k u); cbn; destruct (Z.eqb_spec x k); try reflexivity; try lia; exact IH.
Qed.

(* ---------- table keyed ---------- *)
Fixpoint tk_first (es : list (res tk_entry)) (x : Z) : option tk_entry :=
  match es with
  | [] => None
  | inl _ :: _ => None
  | inr (t, fl, ml, s) :: r => if x =? t then Some (t, fl, ml, s) else tk_first r x
  end.

Lemma memZ_false x l : memZ x l = false <-> ~ In x l.
Proof.
  rewrite <- memZ_true. destruct (memZ x l); split; intros H; congruence.
Qed.

Lemma tk_fold_spec dec f : forall es k processed fb processed' fb',
  tk_fold dec f es k processed fb = inr (processed', fb') ->
  (forall x, In x processed -> lookup fb' x = lookup fb x /\ In x processed') /\
  (forall x, ~ In x processed ->
     match tk_first es x with
     | None => lookup fb' x = lookup fb x /\ ~ In x processed'
     | Some (t, fl, ml, s) =>
         In x processed' /\
         if Z.testbit fl 1 then lookup fb' x = lookup fb x
         else exists k' out, dec k' s (if Z.testbit fl 0 then None else lookup f x) ml = inr out /\
                             lookup fb' x = Some out
     end).
Proof.
  induction es as [|[e|[[[t fl] ml] s]] r IH]; intros k processed fb processed' fb' H.
  - cbn in H. inversion H; subst. split; intros; cbn; auto.
  - discriminate.
  - cbn [tk_fold] in H. destruct (memZ t processed) eqn:M.
    + destruct (IH _ _ _ _ _ H) as [I1 I2]. split; [exact I1|].
      intros x Hx. cbn [tk_first]. apply memZ_true in M.
      destruct (Z.eqb_spec x t); [subst; contradiction | now apply I2].
    + apply memZ_false in M.
      assert (Step : forall k2 fb2,
        tk_fold dec f r k2 (t :: processed) fb2 = inr (processed', fb') ->
        (forall x, x <> t -> lookup fb2 x = lookup fb x) ->
        (if Z.testbit fl 1 then lookup fb2 t = lookup fb t
         else exists k' out, dec k' s (if Z.testbit fl 0 then None else lookup f t) ml = inr out /\
                             lookup fb2 t = Some out) ->
        (forall x, In x processed -> lookup fb' x = lookup fb x /\ In x processed') /\
        (forall x, ~ In x processed ->
           match tk_first (inr (t, fl, ml, s) :: r) x with
           | None => lookup fb' x = lookup fb x /\ ~ In x processed'
           | Some (t0, fl0, ml0, s0) =>
               In x processed' /\
               if Z.testbit fl0 1 then lookup fb' x = lookup fb x
               else exists k' out, dec k' s0 (if Z.testbit fl0 0 then None else lookup f x) ml0 = inr out /\
                                   lookup fb' x = Some out
           end)).
      { intros k2 fb2 H2 Hother Ht. destruct (IH _ _ _ _ _ H2) as [I1 I2]. split.
        - intros x Hx. destruct (I1 x (or_intror Hx)) as [A B]. split; [|exact B].
          rewrite A. apply Hother. intros ->. contradiction.
        - intros x Hx. cbn [tk_first]. destruct (Z.eqb_spec x t).
          + subst x. destruct (I1 t (or_introl eq_refl)) as [A B]. split; [exact B|].
            destruct (Z.testbit fl 1); [now rewrite A|].
            destruct Ht as [k' [out [D L]]]. exists k', out. split; [exact D | now rewrite A].
          + assert (Hx' : ~ In x (t :: processed)) by (intros [E|E]; [now subst | contradiction]).
            specialize (I2 x Hx'). destruct (tk_first r x) as [[[[t0 fl0] ml0] s0]|].
            * destruct I2 as [A B]. split; [exact A|]. rewrite <- (Hother x n).
              destruct (Z.testbit fl0 1); [exact B | exact B].
            * destruct I2 as [A B]. split; [|exact B]. now rewrite A, Hother. }
      destruct (Z.testbit fl 1) eqn:Drop.
      * apply (Step _ _ H); [reflexivity | reflexivity].
      * assert (Dec : forall dict, dict = (if Z.testbit fl 0 then None else lookup f t) ->
           match dec k s dict ml with
           | inl kind => inl (6, 10 + kind)
           | inr out => tk_fold dec f r (S k) (t :: processed) (fb_add t out fb)
           end = inr (processed', fb') ->
           (forall x, In x processed -> lookup fb' x = lookup fb x /\ In x processed') /\
           (forall x, ~ In x processed ->
              match tk_first (inr (t, fl, ml, s) :: r) x with
              | None => lookup fb' x = lookup fb x /\ ~ In x processed'
              | Some (t0, fl0, ml0, s0) =>
                  In x processed' /\
                  if Z.testbit fl0 1 then lookup fb' x = lookup fb x
                  else exists k' out, dec k' s0 (if Z.testbit fl0 0 then None else lookup f x) ml0 = inr out /\
                                      lookup fb' x = Some out
              end)).
        { intros dict Hd K. destruct (dec k s dict ml) as [?|out] eqn:D; [discriminate|].
          apply (Step _ _ K).
          - intros x Hx. rewrite lookup_fb_add. destruct (Z.eqb_spec x t); [contradiction | reflexivity].
          - exists k, out. split; [now rewrite <- Hd | now rewrite lookup_fb_add, Z.eqb_refl]. }
        destruct (lookup f t) as [base|] eqn:B; destruct (Z.testbit fl 0) eqn:R; try discriminate;
          eapply Dec; try exact H; reflexivity.
Qed.

Lemma tk_entries_no_inl dec f es k p fb r : tk_fold dec f es k p fb = inr r -> True.
Proof. trivial. Qed.

(* table keyed application: exactly what the patch says *)
Lemma apply_table_keyed_exact dec f fmt offs p F : NoDup (map fst f) ->
  apply_table_keyed dec f fmt offs p = inr F ->
  forall x,
    match tk_first (tk_entries p offs) x with
    | None => lookup F x = lookup f x                                  (* unlisted: byte-identical *)
    | Some (t, fl, ml, s) =>
        if Z.testbit fl 1 then lookup F x = None                        (* dropped: absent *)
        else exists k out, dec k s (if Z.testbit fl 0 then None else lookup f x) ml = inr out /\
                           lookup F x = Some out                        (* replacement / diff result *)
    end.
Proof.
  intros ND H x. unfold apply_table_keyed in H.
  destruct (fmt =? T_iftk); cbn [negb] in H; [|discriminate].
  destruct (tk_fold dec f (tk_entries p offs) 0 [] []) as [?|[processed fb]] eqn:E; cbn [bind] in H; [discriminate|].
  inversion H; subst F. rewrite lookup_copy_unprocessed by assumption.
  destruct (tk_fold_spec _ _ _ _ _ _ _ _ E) as [_ I2]. specialize (I2 x (fun K => K)).
  destruct (tk_first (tk_entries p offs) x) as [[[[t fl] ml] s]|].
  - destruct I2 as [A B]. apply memZ_true in A. rewrite A.
    destruct (Z.testbit fl 1); [exact B | exact B].
  - destruct I2 as [A B]. apply memZ_false in B. rewrite B. rewrite A. cbn.
    destruct (lookup f x); reflexivity.
Qed.

(* a compatibility id mismatch is reported before any decoder call: whatever the decoder does *)
Lemma tk_incompatible_no_decode f info p cid :
  font_compat_id f (pi_tbl info) = inr cid ->
  (bytes_eqb cid (pi_compat info) = false \/
   exists fmt pcid offs, tk_header p = inr (fmt, pcid, offs) /\ bytes_eqb pcid cid = false) ->
  forall dec, apply_table_keyed_patch dec f info p = inl (4, 0).
Proof.
  intros C H dec. unfold apply_table_keyed_patch. rewrite C. cbn [bind].
  destruct H as [H|[fmt [pcid [offs [Hh Hc]]]]].
  - rewrite H. reflexivity.
  - destruct (bytes_eqb cid (pi_compat info)); [|reflexivity]. cbn [negb].
    rewrite Hh. cbn [bind]. rewrite Hc. reflexivity.
Qed.

(* ---------- applied bits ---------- *)
Lemma set_bit_spec : forall d i b d', set_bit d i b = Some d' ->
  length d' = length d /\
  forall k, nth_error d' k =
            if Nat.eqb k i then option_map (fun x => Z.lor x (Z.shiftl 1 b)) (nth_error d k) else nth_error d k.
Proof.
  induction d as [|x r IH]; intros i b d' H; [destruct i; discriminate|].
  destruct i; cbn in H.
  - inversion H; subst. split; [reflexivity|]. intros [|k]; reflexivity.
  - destruct (set_bit r i b) as [r'|] eqn:E; [|discriminate]. cbn in H. inversion H; subst.
    destruct (IH _ _ _ E) as [L N]. split; [cbn; now rewrite L|].
    intros [|k]; [reflexivity|]. cbn. apply N.
Qed.

Lemma testbit_or_mask x b j : 0 <= b -> 0 <= j ->
  Z.testbit (Z.lor x (Z.shiftl 1 b)) j = Z.testbit x j || (j =? b).
Proof.
  intros Hb Hj. rewrite Z.lor_spec, Z.shiftl_spec by lia. f_equal.
  destruct (Z.eqb_spec j b).
  - subst. now rewrite Z.sub_diag.
  - destruct (Z.ltb_spec j b).
    + now rewrite Z.testbit_neg_r by lia.
    + apply Z.bits_above_log2; [lia|]. cbn. lia.
Qed.
