(* C18 round 7 — (1) patch_offset_array (the literal loop) succeeds exactly when the glyph-by-glyph specification
   version does, with the same result; (2) grouping independence at the level of the generic offset array
   (glyf, gvar, CFF, CFF2): one call with v1 ++ v2 = two calls, PROVIDED the offset type is the same in the three
   applications (false in general: widths never narrow, finding F-C18-4; and a short->long widening in the second
   call keeps the first call's padding bytes) and the second call re-reads the first call's output
   (hypothesis on per-glyph slices; discharged for gvar's data placement by [shifted_slices], for loca by
   Grouping.read_loca_rebuilt). *)
From Coq Require Import ZArith List Bool Lia Permutation.
From FV Require Import Lib.RustInt C18.Model C18.GkProofs C18.Runs C18.GkProofs2 C18.Grouping C18.Runs2.
Import ListNotations.
Open Scope Z_scope.
Ltac Zify.zify_post_hook ::= Z.div_mod_to_equations.

(* ---------- patch_offset_array with the specification loop ---------- *)
Definition patch_offset_array_spec (views : list gp) (t : Z) (offs chk : list Z) (data : bytes)
           (T : otype) (avail : list otype) (e_off : err) (maxgid : Z) : res (otype * list Z * bytes) :=
  match dedup views t with
  | inl (_, c) => inl (1, c)
  | inr m =>
      let gids := map fst m in
      let keep := keep_from 0 gids maxgid in
      let? total0 := retained_total keep offs e_off 0 in
      let total := fold_left (fun a gd => a + (len (snd gd) + len (snd gd) mod ot_div T)) m total0 in
      let? T' := choose_type T avail total in
      if last gids 0 >? maxgid then inl (6, 9) else
      if negb (ascending chk) then inl (2, 2) else
      let? (os, ds) := build_loop (Z.to_nat (maxgid + 1)) 0 m offs data T' e_off 0 in
      inr (T', os, ds)
  end.

Theorem poa_is_spec views t offs chk data T avail e_off maxgid : 0 <= maxgid ->
  (ascending chk = true -> ascending offs = true) ->
  (forall m, dedup views t = inr m -> Forall (fun gd => 0 <= fst gd) m) ->
  ok_of (patch_offset_array_gen views t offs chk data T avail e_off maxgid) =
  ok_of (patch_offset_array_spec views t offs chk data T avail e_off maxgid).
Proof.
  intros Hm HA Hnn. unfold patch_offset_array_gen, patch_offset_array_spec.
  destruct (dedup views t) as [[? ?]|m] eqn:D; [reflexivity|].
  destruct (retained_total _ offs e_off 0) as [?|total0]; cbn [bind]; [reflexivity|].
  match goal with |- context [choose_type T avail ?tt] => set (total := tt) end.
  destruct (choose_type T avail total) as [?|T0] eqn:C; cbn [bind]; [reflexivity|].
  destruct (last (map fst m) 0 >? maxgid) eqn:L; [reflexivity|].
  destruct (ascending chk) eqn:A0; cbn [negb]; [|reflexivity].
  pose proof (HA eq_refl) as A. specialize (Hnn _ eq_refl).
  assert (HL : last (map fst m) 0 <= maxgid) by lia.
  pose proof (gm_ok_keys_le _ _ (dedup_ok _ _ _ D) HL) as Hle.
  assert (Hk : Forall (fun gd => 0 <= fst gd <= maxgid) m).
  { rewrite Forall_forall in *. intros x Hx. specialize (Hnn x Hx). specialize (Hle x Hx). lia. }
  assert (Hfuel : (length (runs_from (map fst m)) + length (keep_from 0 (map fst m) maxgid)
                   < S (S (length m + length (keep_from 0 (map fst m) maxgid))))%nat).
  { pose proof (runs_from_length (map fst m)) as RL. rewrite map_length in RL. lia. }
  pose proof (build_runs_eq_build_loop offs data T0 e_off maxgid A _ 0 m 0 [] [] ltac:(lia) (dedup_ok _ _ _ D) Hk Hfuel) as E.
  rewrite Z.sub_0_r in E.
  destruct (build_runs _ _ _ _ offs data T0 e_off 0 [] []) as [?|[os ds]];
    destruct (build_loop (Z.to_nat (maxgid + 1)) 0 m offs data T0 e_off 0) as [?|[os' ds']];
    cbn in E |- *; try reflexivity; try discriminate.
  inversion E; subst. reflexivity.
Qed.

(* ---------- two stages = one stage, the second stage reading any array with the same per-glyph slices ---------- *)
Lemma two_stage_gen n (m1 m2 m12 : gmap) offs data offs2 data2 T e_off e_off2 os1 ds1 os2 ds2 os12 ds12 :
  build_loop n 0 m1 offs data T e_off 0 = inr (os1, ds1) ->
  build_loop n 0 m2 offs2 data2 T e_off2 0 = inr (os2, ds2) ->
  build_loop n 0 m12 offs data T e_off 0 = inr (os12, ds12) ->
  (forall i, (i < n)%nat -> old_slice offs2 data2 (0 + Z.of_nat i) = old_slice os1 ds1 (0 + Z.of_nat i)) ->
  gm_ok m1 -> gm_ok m2 -> gm_ok m12 ->
  Forall (fun gd => 0 <= fst gd) m1 -> Forall (fun gd => 0 <= fst gd) m2 -> Forall (fun gd => 0 <= fst gd) m12 ->
  (forall g, lookup m12 g = match lookup m1 g with Some d => Some d | None => lookup m2 g end) ->
  (forall g d1 d2, lookup m1 g = Some d1 -> lookup m2 g = Some d2 -> d1 = d2) ->
  os2 = os12 /\ ds2 = ds12.
Proof.
  intros B1 B2 B12 Hre O1 O2 O12 N1 N2 N12 Hm Hag.
  destruct (build_loop_spec _ _ _ _ _ _ _ _ _ _ B1 O1 N1) as [s1 [L1 [-> [-> P1]]]].
  destruct (build_loop_spec _ _ _ _ _ _ _ _ _ _ B2 O2 N2) as [s2 [L2 [-> [-> P2]]]].
  destruct (build_loop_spec _ _ _ _ _ _ _ _ _ _ B12 O12 N12) as [s12 [L12 [-> [-> P12]]]].
  assert (s2 = s12); [|subst; auto].
  apply nth_error_ext_eq; [congruence|]. intros i x y Hx Hy.
  pose proof (P2 _ _ Hx) as Q2. pose proof (P12 _ _ Hy) as Q12.
  unfold new_slice in Q2, Q12. rewrite Hm in Q12.
  assert (Hi : (i < length s1)%nat).
  { rewrite L1, <- L2. apply nth_error_Some. congruence. }
  destruct (lookup m2 (0 + Z.of_nat i)) as [d2|] eqn:E2.
  - destruct (lookup m1 (0 + Z.of_nat i)) as [d1|] eqn:E1.
    + rewrite (Hag _ _ _ E1 E2) in Q12. congruence.
    + congruence.
  - rewrite Hre in Q2 by lia.
    destruct (nth_error s1 i) as [z|] eqn:Ez; [|apply nth_error_None in Ez; lia].
    pose proof (P1 _ _ Ez) as Q1. unfold new_slice in Q1.
    assert (Hold : old_slice (psums 0 s1) (concat s1) (0 + Z.of_nat i) = Some z).
    { unfold old_slice. rewrite !nthZ_nth by lia.
      replace (Z.to_nat (0 + Z.of_nat i)) with i by lia. replace (Z.to_nat (0 + Z.of_nat i + 1)) with (S i) by lia.
      destruct (nth_error (psums 0 s1) i) as [a|] eqn:Ea;
        [|apply nth_error_None in Ea; rewrite psums_length in Ea; unfold bytes in *; lia].
      destruct (nth_error (psums 0 s1) (S i)) as [b|] eqn:Eb;
        [|apply nth_error_None in Eb; rewrite psums_length in Eb; unfold bytes in *; lia].
      pose proof (psums_slice s1 0 i a b z Ea Eb Ez) as Q. now rewrite !Z.sub_0_r in Q. }
    rewrite Hold in Q2. destruct (lookup m1 (0 + Z.of_nat i)); congruence.
Qed.

(* grouping independence of the generic offset array (glyf / gvar / CFF / CFF2 instance alike) *)
Theorem poa_grouping v1 v2 t offs data offs2 data2 T T' avail e_off e_off2 maxgid os1 ds1 os2 ds2 os12 ds12 :
  0 <= maxgid -> gids_nonneg (v1 ++ v2) -> views_agree t (v1 ++ v2) ->
  patch_offset_array v1 t offs data T avail e_off maxgid = inr (T', os1, ds1) ->
  patch_offset_array v2 t offs2 data2 T' avail e_off2 maxgid = inr (T', os2, ds2) ->
  patch_offset_array (v1 ++ v2) t offs data T avail e_off maxgid = inr (T', os12, ds12) ->
  (forall g, 0 <= g <= maxgid -> old_slice offs2 data2 g = old_slice os1 ds1 g) ->
  os2 = os12 /\ ds2 = ds12.
Proof.
  intros Hmg Hnn Hag PA1 PA2 PA12 Hre.
  assert (Hnn1 : gids_nonneg v1) by (unfold gids_nonneg in *; apply Forall_app in Hnn; tauto).
  assert (Hnn2 : gids_nonneg v2) by (unfold gids_nonneg in *; apply Forall_app in Hnn; tauto).
  destruct (poa_inv _ _ _ _ _ _ _ _ _ _ _ PA1 Hmg) as [m1 [tot1 [D1 [_ [_ [_ B1]]]]]].
  destruct (poa_inv _ _ _ _ _ _ _ _ _ _ _ PA12 Hmg) as [m12 [tot12 [D12 [_ [_ [_ B12]]]]]].
  destruct (poa_inv _ _ _ _ _ _ _ _ _ _ _ PA2 Hmg) as [m2 [tot2 [D2 [_ [_ [_ B2]]]]]].
  specialize (B1 (dedup_nonneg _ _ _ Hnn1 D1)). specialize (B12 (dedup_nonneg _ _ _ Hnn D12)).
  specialize (B2 (dedup_nonneg _ _ _ Hnn2 D2)).
  destruct (dedup_app _ _ _ _ D12) as [m1' [m2' [it1 [it2 [D1' [D2' [M1 [M2 [M12 [F1' [F2' Hm]]]]]]]]]]].
  rewrite D1 in D1'; inversion D1'; subst m1'. rewrite D2 in D2'; inversion D2'; subst m2'.
  assert (Hagm : forall g d1 d2, lookup m1 g = Some d1 -> lookup m2 g = Some d2 -> d1 = d2).
  { intros g d1 d2 A1 A2. rewrite F1' in A1. rewrite F2' in A2. apply first_data_in in A1, A2.
    apply (Hag _ M12 g); rewrite concat_app; apply in_or_app; auto. }
  eapply (two_stage_gen _ m1 m2 m12); eauto using dedup_ok, dedup_nonneg.
  intros i Hi. apply Hre. lia.
Qed.

(* gvar places the builder's data behind header+offsets+shared tuples and shifts the offsets by that amount:
   the per-glyph slices seen by the next call are the builder's *)
Lemma shifted_slices (pre ds : bytes) (os : list Z) g : Forall (fun o => 0 <= o) os -> 0 <= g ->
  old_slice (map (fun o => len pre + o) os) (pre ++ ds) g = old_slice os ds g.
Proof.
  intros Hos Hg. unfold old_slice. rewrite !nthZ_nth by lia. rewrite !nth_error_map.
  destruct (nth_error os (Z.to_nat g)) as [a|] eqn:Ea; cbn [option_map]; [|reflexivity].
  destruct (nth_error os (Z.to_nat (g + 1))) as [b|] eqn:Eb; cbn [option_map]; [|reflexivity].
  apply slice_skip_prefix. rewrite Forall_forall in Hos. apply Hos. eapply nth_error_In; eauto.
Qed.
