(* C18 round 7 — non-vacuity examples and refutation witnesses for Runs2.v / Grouping2.v *)
From Coq Require Import ZArith List Bool Lia.
From FV Require Import Lib.RustInt C18.Model C18.Proofs C18.Runs2 C18.Grouping2.
Import ListNotations.
Open Scope Z_scope.

(* c18_build_runs_eq_build_loop: hypotheses satisfiable, both sides are a non-trivial Some *)
Example c18_build_runs_eq_nonvacuous :
  let m : gmap := [(1, [7; 8; 9]); (2, [5])] in
  let offs := [0; 2; 2; 6; 8] in let data := [1; 2; 3; 4; 5; 6; 7; 8] in
  ascending offs = true /\ gm_ok m /\ Forall (fun gd => 0 <= fst gd <= 3) m /\
  (length (runs_from (map fst m)) + length (keep_from 0 (map fst m) 3) < 5)%nat /\
  ok_of (build_runs 5 (runs_from (map fst m)) (keep_from 0 (map fst m) 3) (map snd m) offs data ot_short (6, 10) 0 [] [])
  = Some ([0; 2; 6; 8; 10], [1; 2; 7; 8; 9; 0; 5; 0; 7; 8]) /\
  ok_of (build_loop 4 0 m offs data ot_short (6, 10) 0) = Some ([0; 2; 6; 8; 10], [1; 2; 7; 8; 9; 0; 5; 0; 7; 8]).
Proof.
  cbv zeta. split; [reflexivity|]. split; [repeat constructor; cbn; lia|].
  split; [repeat constructor; cbn; lia|]. split; [cbn; lia|]. split; vm_compute; reflexivity.
Qed.

(* the ERROR values of the literal loop and of the specification can differ (both fail, as the theorem says):
   1-byte CFF offsets, glyph 1 starts at byte 255 (not representable: spec reports InternalError when it gets
   there), and the kept run 0..2 ends beyond the data (literal loop slices the whole run first: OutOfBounds).
   Unreachable from patch_offset_array with the real offset types (w <= total <= ot_max T'). *)
Example c18_run_loop_error_differs :
  let offs := [0; 255; 256; 1000] in let data := repeat 0 256 in
  ascending offs = true /\
  build_runs 5 (runs_from []) (keep_from 0 [] 2) [] offs data (ot_cff 1) (2, 1) 0 [] [] = inl (2, 1) /\
  build_loop 3 0 [] offs data (ot_cff 1) (2, 1) 0 = inl (8, 0).
Proof. cbv zeta. split; [reflexivity|]. split; vm_compute; reflexivity. Qed.

(* c18_patch_offset_array_is_spec: both sides succeed on the round-1 builder example *)
Example c18_poa_is_spec_nonvacuous :
  let v := {| gp_gids := [1]; gp_tables := [T_glyf]; gp_offs := [1; 4]; gp_raw := [0; 7; 8; 9] |} in
  ok_of (patch_offset_array_spec [v] T_glyf [0; 2; 2; 6] [0; 2; 2; 6] [1; 2; 3; 4; 5; 6] ot_short [ot_short] (6, 10) 2)
  = Some (ot_short, [0; 2; 6; 10], [1; 2; 7; 8; 9; 0; 3; 4; 5; 6]) /\
  (forall m, dedup [v] T_glyf = inr m -> Forall (fun gd => 0 <= fst gd) m).
Proof.
  cbv zeta. split; [vm_compute; reflexivity|]. intros m H. vm_compute in H. inversion H; subst.
  repeat constructor. cbn. lia.
Qed.

(* c18_offset_array_grouping: a gvar-like second call (data behind a 6-byte prefix, offsets shifted by 6);
   the three applications succeed with the same offset type and the re-read hypothesis holds *)
Definition gv1 := {| gp_gids := [1]; gp_tables := [T_gvar]; gp_offs := [1; 3]; gp_raw := [0; 7; 8; 9] |}.
Definition gv2 := {| gp_gids := [1; 2]; gp_tables := [T_gvar]; gp_offs := [1; 3; 4]; gp_raw := [0; 7; 8; 9] |}.
Example c18_offset_array_grouping_nonvacuous :
  let offs := [0; 2; 4; 4] in let data := [1; 2; 3; 4] in let pre := [9; 9; 9; 9; 9; 9] in
  exists os1 ds1 os12 ds12,
    patch_offset_array [gv1] T_gvar offs data ot_short [ot_short; ot_long] (2, 1) 2 = inr (ot_short, os1, ds1) /\
    patch_offset_array [gv2] T_gvar (map (fun o => len pre + o) os1) (pre ++ ds1) ot_short [ot_short; ot_long] (2, 1) 2
      = inr (ot_short, os12, ds12) /\
    patch_offset_array ([gv1] ++ [gv2]) T_gvar offs data ot_short [ot_short; ot_long] (2, 1) 2 = inr (ot_short, os12, ds12) /\
    ds12 = [1; 2; 7; 8; 9; 0] /\
    (forall g, 0 <= g <= 2 -> old_slice (map (fun o => len pre + o) os1) (pre ++ ds1) g = old_slice os1 ds1 g).
Proof.
  cbv zeta. eexists; eexists; eexists; eexists.
  split; [vm_compute; reflexivity|]. split; [vm_compute; reflexivity|]. split; [vm_compute; reflexivity|].
  split; [reflexivity|]. intros g Hg. apply shifted_slices; [|lia]. repeat constructor; lia.
Qed.
