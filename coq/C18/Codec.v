(* C18 — the GlyphPatches container: decoding (gp_read, as used by the model on the real patch BYTES with the
   patch's OWN glyph-id width flag) inverts the encoder, for both glyph id widths *)
From Coq Require Import ZArith List Bool Lia.
From FV Require Import Lib.RustInt C18.Model C18.GkProofs C18.Runs C18.GkProofs2 C18.Grouping.
Import ListNotations.
Open Scope Z_scope.

Definition idw (wide : bool) : nat := if wide then 3%nat else 2%nat.
(* glyphCount u32, tableCount u8, glyph ids (u16 or u24), table tags, (glyphCount * tableCount + 1) u32 offsets, data *)
Definition gp_encode (wide : bool) (gids tables offs : list Z) (blob : bytes) : bytes :=
  to_be 4 (len gids) ++ to_be 1 (len tables) ++ concat (map (to_be (idw wide)) gids)
  ++ concat (map (to_be 4) tables) ++ concat (map (to_be 4) offs) ++ blob.

Lemma chunks_concat_to_be_app w : forall vals rest, Forall (fun v => 0 <= v < 256 ^ Z.of_nat w) vals ->
  chunks w (length vals) (concat (map (to_be w) vals) ++ rest) = vals.
Proof.
  induction vals as [|v r IH]; intros rest H; [reflexivity|]. inversion H; subst. cbn [length map concat chunks].
  rewrite <- app_assoc.
  rewrite firstn_app, to_be_length, Nat.sub_diag, firstn_all2 by (rewrite to_be_length; lia). cbn [firstn].
  rewrite app_nil_r, from_to_be by assumption.
  rewrite skipn_app, to_be_length, Nat.sub_diag, skipn_all2 by (rewrite to_be_length; lia). cbn [skipn app].
  now rewrite IH.
Qed.

Lemma skipn_len_app {A} (a b : list A) n : n = length a -> skipn n (a ++ b) = b.
Proof. intros ->. rewrite skipn_app, Nat.sub_diag, skipn_all. reflexivity. Qed.

Lemma uN_at_prefix n (pre : bytes) x rest : 0 <= x < 256 ^ Z.of_nat n ->
  uN_at (Z.of_nat n) (pre ++ to_be n x ++ rest) (len pre) = Some x.
Proof.
  intros Hx. unfold uN_at. rewrite slice_intro.
  - cbn [option_map]. f_equal. replace (len pre + Z.of_nat n - len pre) with (Z.of_nat n) by lia.
    unfold len. rewrite !Nat2Z.id. rewrite skipn_len_app by reflexivity.
    rewrite firstn_app, to_be_length, Nat.sub_diag, firstn_all2 by (rewrite to_be_length; lia).
    cbn [firstn]. rewrite app_nil_r. now apply from_to_be.
  - apply len_nonneg.
  - lia.
  - rewrite !len_app. unfold len at 3. rewrite to_be_length. pose proof (len_nonneg rest). lia.
Qed.

Theorem gp_read_encode wide gids tables offs blob :
  Forall (fun g => 0 <= g < 256 ^ Z.of_nat (idw wide)) gids ->
  Forall (fun t => 0 <= t < 256 ^ 4) tables -> Forall (fun o => 0 <= o < 256 ^ 4) offs ->
  len gids < 256 ^ 4 -> len tables < 256 ->
  length offs = (length gids * length tables + 1)%nat ->
  gp_read (gp_encode wide gids tables offs blob) wide =
  inr {| gp_gids := gids; gp_tables := tables; gp_offs := offs; gp_raw := gp_encode wide gids tables offs blob |}.
Proof.
  intros Hg Ht Ho Lg Lt Lo. unfold gp_read.
  assert (E0 : uN_at 4 (gp_encode wide gids tables offs blob) 0 = Some (len gids)).
  { unfold gp_encode. apply (uN_at_prefix 4 [] (len gids)). pose proof (len_nonneg gids). cbn. lia. }
  assert (E4 : uN_at 1 (gp_encode wide gids tables offs blob) 4 = Some (len tables)).
  { unfold gp_encode.
    replace 4 with (len (to_be 4 (len gids))) at 1 by (unfold len; now rewrite to_be_length).
    apply (uN_at_prefix 1 (to_be 4 (len gids)) (len tables)). pose proof (len_nonneg tables). cbn. lia. }
  rewrite E0, E4.
  set (w := if wide then 3 else 2).
  assert (Hw : w = Z.of_nat (idw wide)) by (unfold w, idw; destruct wide; reflexivity).
  assert (Hwv : w = 3 \/ w = 2) by (unfold w; destruct wide; auto).
  clearbody w.
  assert (LG : len (concat (map (to_be (idw wide)) gids)) = len gids * w) by (rewrite len_concat_to_be; lia).
  assert (LT : len (concat (map (to_be 4) tables)) = len tables * 4) by (rewrite len_concat_to_be; lia).
  assert (LO : len (concat (map (to_be 4) offs)) = (len gids * len tables + 1) * 4).
  { rewrite len_concat_to_be. unfold len. rewrite Lo. lia. }
  assert (Ltot : len (gp_encode wide gids tables offs blob) =
                 5 + len gids * w + len tables * 4 + (len gids * len tables + 1) * 4 + len blob).
  { unfold gp_encode. rewrite !len_app, LG, LT, LO.
    assert (A4 : len (to_be 4 (len gids)) = 4) by (unfold len; now rewrite to_be_length).
    assert (A1 : len (to_be 1 (len tables)) = 1) by (unfold len; now rewrite to_be_length).
    rewrite A4, A1. lia. }
  destruct (Z.leb_spec (5 + len gids * w + len tables * 4 + (len gids * len tables + 1) * 4)
                       (len (gp_encode wide gids tables offs blob))) as [_|Hbad];
    [|pose proof (len_nonneg blob); lia].
  f_equal. f_equal.
  - (* glyph ids *)
    unfold gp_encode. rewrite (app_assoc (to_be 4 _)). rewrite skipn_len_app by (rewrite app_length, !to_be_length; reflexivity).
    replace (Z.to_nat w) with (idw wide) by lia. replace (Z.to_nat (len gids)) with (length gids) by (unfold len; lia).
    now apply chunks_concat_to_be_app.
  - (* table tags *)
    unfold gp_encode. rewrite (app_assoc (to_be 4 _)), (app_assoc (_ ++ _)).
    rewrite skipn_len_app.
    + replace (Z.to_nat (len tables)) with (length tables) by (unfold len; lia).
      apply chunks_concat_to_be_app. eapply Forall_impl; [|exact Ht]. cbn. intros; lia.
    + rewrite !app_length, !to_be_length. unfold len in *. destruct Hwv as [Ew|Ew]; rewrite Ew in *; lia.
  - (* offsets *)
    unfold gp_encode. rewrite (app_assoc (to_be 4 _)), (app_assoc (_ ++ _)), (app_assoc (_ ++ _)).
    rewrite skipn_len_app.
    + replace (Z.to_nat (len gids * len tables + 1)) with (length offs) by (unfold len; lia).
      apply chunks_concat_to_be_app. eapply Forall_impl; [|exact Ho]. cbn. intros; lia.
    + rewrite !app_length, !to_be_length. unfold len in *. destruct Hwv as [Ew|Ew]; rewrite Ew in *; lia.
Qed.
