(* C18 round 7 — the literal run-by-run builder loop ([build_runs] = OffsetArrayBuilder::build as coded) and the
   glyph-by-glyph specification [build_loop] succeed on exactly the same inputs with exactly the same offsets
   and data: Runs.v proves "literal succeeds => specification returns the same" (soundness); this file proves the
   converse (completeness) and the resulting equality of the success parts.  The ERROR values are not always
   equal (the literal loop reports a failing whole-run slice before a per-glyph offset overflow; Examples2.v
   c18_run_loop_error_differs), which is why the equality is stated on [ok_of]. *)
From Coq Require Import ZArith List Bool Lia.
From FV Require Import Lib.RustInt C18.Model C18.GkProofs C18.Runs.
Import ListNotations.
Open Scope Z_scope.
Ltac Zify.zify_post_hook ::= Z.div_mod_to_equations.

Definition ok_of {A} (r : res A) : option A := match r with inr a => Some a | inl _ => None end.

Lemma slice_join data a b c p q : slice data a b = Some p -> slice data b c = Some q ->
  slice data a c = Some (p ++ q).
Proof.
  intros Hp Hq. apply slice_inv in Hp. destruct Hp as [A0 [A1 [A2 ->]]].
  apply slice_inv in Hq. destruct Hq as [B0 [B1 [B2 ->]]].
  rewrite slice_intro by lia. f_equal.
  replace (Z.to_nat (c - a)) with (Z.to_nat (b - a) + Z.to_nat (c - b))%nat by lia.
  rewrite firstn_add_skip. f_equal. f_equal. rewrite <- skipn_add. f_equal. lia.
Qed.

(* one kept glyph of the specification *)
Lemma build_loop_keep_step n s (m : gmap) offs data T e_off w os ds :
  Forall (fun gd => s < fst gd) m ->
  build_loop (S n) s m offs data T e_off w = inr (os, ds) ->
  exists so c1 p os0 ds0, nthZ offs s = Some so /\ nthZ offs (s + 1) = Some c1 /\ slice data so c1 = Some p /\
    off_fits T w = true /\ build_loop n (s + 1) m offs data T e_off (w + (c1 - so)) = inr (os0, ds0) /\
    os = w :: os0 /\ ds = p ++ ds0.
Proof.
  intros Hk H. cbn [build_loop] in H.
  assert (K : match nthZ offs s, nthZ offs (s + 1) with
        | Some s0, Some e =>
            match slice data s0 e with
            | Some sl =>
                if off_fits T w then
                  let? (os, ds) := build_loop n (s + 1) m offs data T e_off (w + (e - s0)) in
                  inr (w :: os, sl ++ ds)
                else inl (8, 0)
            | None => inl (2, 1)
            end
        | _, _ => inl e_off
        end = inr (os, ds)).
  { destruct m as [|[g d] r]; [exact H|]. inversion Hk; subst. cbn in H2.
    replace (g =? s) with false in H by (symmetry; apply Z.eqb_neq; lia). exact H. }
  clear H. destruct (nthZ offs s) as [so|] eqn:E1; [|discriminate]. destruct (nthZ offs (s + 1)) as [c1|] eqn:E2; [|discriminate].
  destruct (slice data so c1) as [p|] eqn:E3; [|discriminate]. destruct (off_fits T w) eqn:E4; [|discriminate].
  destruct (build_loop n (s + 1) m offs data T e_off (w + (c1 - so))) as [?|[os0 ds0]] eqn:B; cbn [bind] in K; [discriminate|].
  inversion K; subst. exists so, c1, p, os0, ds0. repeat split; auto.
Qed.

(* ---------- a run of kept glyphs, converse of keep_run_loop ---------- *)
Lemma keep_loop_conv offs data T e_off (m : gmap) :
  forall n s w n' os ds, 0 <= s ->
  Forall (fun gd => s + Z.of_nat (S n) <= fst gd) m ->
  build_loop (S n + n') s m offs data T e_off w = inr (os, ds) ->
  exists so eo chunk osr os1 ds1,
    nthZ offs s = Some so /\ nthZ offs (s + Z.of_nat (S n)) = Some eo /\ so <= eo /\
    slice data so eo = Some chunk /\
    mapM (keep_off offs T e_off so w) (zrange s (S n)) = inr osr /\
    build_loop n' (s + Z.of_nat (S n)) m offs data T e_off (w + (eo - so)) = inr (os1, ds1) /\
    os = osr ++ os1 /\ ds = chunk ++ ds1.
Proof.
  induction n as [|n IH]; intros s w n' os ds Hs Hk H.
  - change (1 + n')%nat with (S n') in H.
    assert (Hk1 : Forall (fun gd : Z * bytes => s < fst gd) m)
      by (eapply Forall_impl; [|exact Hk]; intros a Ha; cbv beta in *; lia).
    destruct (build_loop_keep_step _ _ _ _ _ _ _ _ _ _ Hk1 H)
      as [so [c1 [p [os0 [ds0 [E1 [E2 [E3 [E4 [E5 [-> ->]]]]]]]]]]].
    exists so, c1, p, [w], os0, ds0. change (Z.of_nat 1) with 1.
    pose proof (slice_inv _ _ _ _ E3) as SI.
    repeat split; auto; try lia.
    cbn [zrange mapM]. unfold keep_off. rewrite E1. replace (so - so + w) with w by lia. rewrite E4. reflexivity.
  - change (S (S n) + n')%nat with (S (S n + n')) in H.
    assert (Hk1 : Forall (fun gd : Z * bytes => s < fst gd) m)
      by (eapply Forall_impl; [|exact Hk]; intros a Ha; cbv beta in *; lia).
    assert (Hk2 : Forall (fun gd : Z * bytes => s + 1 + Z.of_nat (S n) <= fst gd) m)
      by (eapply Forall_impl; [|exact Hk]; intros a Ha; cbv beta in *; lia).
    destruct (build_loop_keep_step _ _ _ _ _ _ _ _ _ _ Hk1 H)
      as [so [c1 [p [os0 [ds0 [E1 [E2 [E3 [E4 [E5 [-> ->]]]]]]]]]]].
    destruct (IH (s + 1) (w + (c1 - so)) n' os0 ds0 ltac:(lia) Hk2 E5)
      as [so' [eo [q [osr [os1 [ds1 [F1 [F2 [F3 [F4 [F5 [F6 [-> ->]]]]]]]]]]]]].
    rewrite E2 in F1. inversion F1; subst so'.
    pose proof (slice_inv _ _ _ _ E3) as SI.
    exists so, eo, (p ++ q), (w :: osr), os1, ds1.
    replace (s + Z.of_nat (S (S n))) with (s + 1 + Z.of_nat (S n)) by lia.
    repeat split; auto; try lia.
    + eapply slice_join; eauto.
    + change (zrange s (S (S n))) with (s :: zrange (s + 1) (S n)).
      apply mapM_cons_intro.
      * unfold keep_off. rewrite E1. replace (so - so + w) with w by lia. now rewrite E4.
      * rewrite <- F5. apply mapM_ext. intros g _. unfold keep_off.
        destruct (nthZ offs g); [|reflexivity]. replace (z - c1 + (w + (c1 - so))) with (z - so + w) by lia. reflexivity.
    + rewrite <- F6. f_equal. lia.
    + now rewrite <- app_assoc.
Qed.

(* ---------- a run of replaced glyphs, converse of rep_steps_loop ---------- *)
Lemma rep_steps_conv offs data T e_off : forall (block : gmap) s m' n' w os ds,
  map fst block = zrange s (length block) ->
  build_loop (length block + n') s (block ++ m') offs data T e_off w = inr (os, ds) ->
  exists w2 xs ys os1 ds1,
    (forall ao ad, rep_steps (map snd block) T w ao ad = inr (w2, ao ++ xs, ad ++ ys)) /\
    build_loop n' (s + len block) m' offs data T e_off w2 = inr (os1, ds1) /\
    os = xs ++ os1 /\ ds = ys ++ ds1.
Proof.
  induction block as [|[g d] block IH]; intros s m' n' w os ds Hk H.
  - exists w, [], [], os, ds. cbn [length Nat.add app] in H. rewrite len_nil, Z.add_0_r.
    repeat split; auto. intros ao ad. cbn. now rewrite !app_nil_r.
  - cbn [map fst length zrange] in Hk. inversion Hk as [[Eg Ek]]. subst g.
    cbn [length Nat.add app build_loop] in H. rewrite Z.eqb_refl in H.
    destruct (off_fits T w) eqn:Fit; [|discriminate].
    destruct (build_loop (length block + n') (s + 1) (block ++ m') offs data T e_off (w + len d + padding T (len d)))
      as [?|[os0 ds0]] eqn:B; cbn [bind] in H; [discriminate|].
    inversion H; subst os ds. clear H.
    destruct (IH _ _ _ _ _ _ Ek B) as [w2 [xs [ys [os1 [ds1 [R [B1 [-> ->]]]]]]]].
    exists w2, (w :: xs), (d ++ repeat 0 (Z.to_nat (padding T (len d))) ++ ys), os1, ds1.
    repeat split.
    + intros ao ad. cbn [map snd rep_steps]. rewrite Fit, R. f_equal. f_equal; [f_equal|].
      * now rewrite <- app_assoc.
      * now rewrite <- !app_assoc.
    + rewrite <- B1. f_equal. rewrite len_cons. lia.
    + now rewrite <- !app_assoc.
Qed.

Lemma runs_from_length (l : list Z) : (length (runs_from l) <= length l)%nat.
Proof.
  induction l as [|g r IH]; [cbn; lia|]. cbn [runs_from].
  destruct (runs_from r) as [|[s e] rr]; [cbn; lia|].
  destruct (s =? g + 1); cbn [length] in *; lia.
Qed.

(* ---------- the specification refines the literal loop ---------- *)
Lemma build_runs_complete offs data T e_off maxgid : ascending offs = true ->
  forall fuel gid (m : gmap) w ao ad os' ds',
  0 <= gid <= maxgid + 1 -> gm_ok m -> Forall (fun gd => gid <= fst gd <= maxgid) m ->
  (length (runs_from (map fst m)) + length (keep_from gid (map fst m) maxgid) < fuel)%nat ->
  build_loop (Z.to_nat (maxgid + 1 - gid)) gid m offs data T e_off w = inr (os', ds') ->
  build_runs fuel (runs_from (map fst m)) (keep_from gid (map fst m) maxgid) (map snd m)
             offs data T e_off w ao ad = inr (ao ++ os', ad ++ ds').
Proof.
  intros Hasc. induction fuel as [|fuel IH]; intros gid m w ao ad os' ds' Hgid Hok Hkeys Hfuel H; [lia|].
  assert (KEEP : forall e (m0 : gmap) rep keep',
     gid <= e <= maxgid -> gm_ok m0 -> Forall (fun gd => e + 1 <= fst gd <= maxgid) m0 ->
     rep = runs_from (map fst m0) -> keep' = keep_from (e + 1) (map fst m0) maxgid ->
     (length rep + length keep' < fuel)%nat ->
     build_loop (Z.to_nat (maxgid + 1 - gid)) gid m0 offs data T e_off w = inr (os', ds') ->
     (let? (w2, o2, d2) := keep_run (gid, e) offs data T e_off w ao ad in
      build_runs fuel rep keep' (map snd m0) offs data T e_off w2 o2 d2) = inr (ao ++ os', ad ++ ds')).
  { intros e m0 rep keep' He Hok0 Hk0 -> -> Hf B.
    assert (En : Z.to_nat (maxgid + 1 - gid) = (S (Z.to_nat (e - gid)) + Z.to_nat (maxgid + 1 - (e + 1)))%nat) by lia.
    rewrite En in B.
    assert (Ee : gid + Z.of_nat (S (Z.to_nat (e - gid))) = e + 1) by lia.
    assert (Hk1 : Forall (fun gd : Z * bytes => gid + Z.of_nat (S (Z.to_nat (e - gid))) <= fst gd) m0)
      by (eapply Forall_impl; [|exact Hk0]; intros a Ha; cbv beta in *; lia).
    assert (Hg0 : 0 <= gid) by lia.
    destruct (keep_loop_conv offs data T e_off m0 _ _ _ _ _ _ Hg0 Hk1 B)
      as [so [eo [chunk [osr [os1 [ds1 [F1 [F2 [F3 [F4 [F5 [F6 [-> ->]]]]]]]]]]]]].
    rewrite Ee in F2, F6.
    unfold keep_run. cbn [fst snd]. rewrite F1, F2.
    replace (eo <? so) with false by (symmetry; apply Z.ltb_ge; lia). rewrite F4.
    unfold run_len. cbn [fst snd]. replace (Z.to_nat (e - gid + 1)) with (S (Z.to_nat (e - gid))) by lia.
    rewrite F5. cbn [bind].
    rewrite (IH (e + 1) m0 (w + (eo - so)) (ao ++ osr) (ad ++ chunk) os1 ds1 ltac:(lia) Hok0 Hk0 Hf F6).
    now rewrite !app_assoc. }
  destruct m as [|[g d] m0].
  - cbn [map runs_from keep_from] in *. destruct (Z.leb_spec gid maxgid).
    + cbn [build_runs]. apply (KEEP maxgid [] [] []); auto; try lia; try constructor.
      * cbn. destruct (Z.leb_spec (maxgid + 1) maxgid); [lia | reflexivity].
      * cbn [length] in *. lia.
    + replace (Z.to_nat (maxgid + 1 - gid)) with 0%nat in H by lia. cbn [build_loop] in H.
      cbn [build_runs]. destruct (off_fits T w); [|discriminate]. inversion H; subst. now rewrite app_nil_r.
  - inversion Hkeys as [|? ? Hg Hkeys0]; subst. cbn in Hg.
    pose proof Hok as Hok_all. inversion Hok as [|? ? ? Hall Hok0]; subst.
    destruct (runs_block m0 g d Hok_all) as [block [m' [e [rr [R [Eq [Lb [Kb [Ee [Rr [Fa Ok']]]]]]]]]]].
    destruct (Z.eq_dec gid g) as [->|Hne].
    + (* a replaced run *)
      rewrite R in *. cbn [map fst keep_from] in *. rewrite Z.ltb_irrefl in *. cbn [andb app] in *.
      assert (Hblock_keys : Forall (fun gd => g <= fst gd <= maxgid) (block ++ m')) by (rewrite <- Eq; exact Hkeys).
      assert (He : e <= maxgid).
      { assert (In e (map fst block)) as H0.
        { rewrite Kb. subst e. unfold len. apply zrange_last_in. exact Lb. }
        apply in_map_iff in H0. destruct H0 as [[ke de] [Hke Hin]]. cbn in Hke. subst ke.
        rewrite Forall_forall in Hblock_keys. specialize (Hblock_keys (e, de)). cbn in Hblock_keys.
        apply Hblock_keys. apply in_or_app. now left. }
      assert (HK : keep_from (g + 1) (map fst m0) maxgid = keep_from (e + 1) (map fst m') maxgid).
      { assert (map fst m0 = zrange (g + 1) (length block - 1) ++ map fst m') as H0.
        { assert (E2 : map fst ((g, d) :: m0) = map fst (block ++ m')) by now rewrite Eq.
          rewrite map_app, Kb in E2. destruct (length block) as [|k] eqn:Elen; [lia|].
          cbn [zrange map fst app] in E2. inversion E2. now replace (S k - 1)%nat with k by lia. }
        rewrite H0. rewrite keep_from_block. f_equal. subst e. unfold len. lia. }
      assert (DOREP : (let? (w2, o2, d2) := rep_run (g, e) (map snd ((g, d) :: m0)) T w ao ad in
                       build_runs fuel rr (keep_from (g + 1) (map fst m0) maxgid)
                                  (skipn (run_len (g, e)) (map snd ((g, d) :: m0))) offs data T e_off w2 o2 d2)
                      = inr (ao ++ os', ad ++ ds')).
      { unfold rep_run, run_len. cbn [fst snd].
        assert (Hn : Z.to_nat (e - g + 1) = length block) by (subst e; unfold len; lia).
        rewrite Hn. rewrite Eq. rewrite map_app.
        assert (Hlb : length (map snd block) = length block) by apply map_length.
        assert (F1 : firstn (length block) (map snd block ++ map snd m') = map snd block).
        { rewrite <- Hlb. rewrite firstn_app, Nat.sub_diag, firstn_all. cbn. apply app_nil_r. }
        assert (S1 : skipn (length block) (map snd block ++ map snd m') = map snd m').
        { rewrite <- Hlb. rewrite skipn_app, Nat.sub_diag, skipn_all. reflexivity. }
        rewrite F1, S1.
        destruct (Nat.ltb_spec (length (map snd block ++ map snd m')) (length block)) as [Hlt|_].
        { rewrite app_length, Hlb in Hlt. lia. }
        rewrite Eq in H.
        replace (Z.to_nat (maxgid + 1 - g)) with (length block + Z.to_nat (maxgid + 1 - (e + 1)))%nat in H
          by (subst e; unfold len; lia).
        destruct (rep_steps_conv offs data T e_off block g m' _ w os' ds' Kb H)
          as [w2 [xs [ys [os1 [ds1 [RS [B1 [-> ->]]]]]]]].
        rewrite RS. cbn [bind]. rewrite HK, <- Rr.
        assert (Hk' : Forall (fun gd => e + 1 <= fst gd <= maxgid) m').
        { rewrite Forall_forall in *. intros x Hx. specialize (Fa x Hx).
          specialize (Hblock_keys x (in_or_app _ _ _ (or_intror Hx))). lia. }
        replace (g + len block) with (e + 1) in B1 by (subst e; lia).
        rewrite (IH (e + 1) m' w2 (ao ++ xs) (ad ++ ys) os1 ds1 ltac:(lia) Ok' Hk').
        - now rewrite !app_assoc.
        - rewrite Rr, <- HK. cbn [length] in Hfuel. lia.
        - exact B1. }
      cbn [build_runs]. destruct (keep_from (g + 1) (map fst m0) maxgid) as [|[a b] keep'] eqn:EK; [exact DOREP|].
      cbn [fst]. replace (g <=? a) with true; [exact DOREP|].
      symmetry. apply Z.leb_le. assert (g + 1 <= a); [|lia].
      eapply (keep_from_head m0 Hok0); [|exact EK]. eapply Forall_impl; [|exact Hall]. cbn; intros; lia.
    + (* a kept run up to the next replaced glyph *)
      assert (Hlt : gid < g) by lia.
      rewrite R in *. cbn [map fst keep_from] in *.
      replace ((gid <? g) && (gid <=? maxgid)) with true in *
        by (symmetry; apply andb_true_intro; split; [apply Z.ltb_lt | apply Z.leb_le]; lia).
      replace (Z.min (g - 1) maxgid) with (g - 1) in * by lia. cbn [app] in *.
      cbn [build_runs]. cbn [fst]. replace (g <=? gid) with false by (symmetry; apply Z.leb_gt; lia).
      apply (KEEP (g - 1) ((g, d) :: m0)); auto; try lia.
      * constructor; [cbn; lia|]. rewrite Forall_forall in *. intros x Hx.
        specialize (Hkeys0 x Hx). specialize (Hall x Hx). lia.
      * cbn [map fst keep_from]. replace (g - 1 + 1) with g by lia.
        rewrite Z.ltb_irrefl. cbn [andb app]. reflexivity.
      * cbn [length] in *. lia.
Qed.

(* ---------- equality of the success parts ---------- *)
Theorem build_runs_eq_build_loop offs data T e_off maxgid : ascending offs = true ->
  forall fuel gid (m : gmap) w ao ad,
  0 <= gid <= maxgid + 1 -> gm_ok m -> Forall (fun gd => gid <= fst gd <= maxgid) m ->
  (length (runs_from (map fst m)) + length (keep_from gid (map fst m) maxgid) < fuel)%nat ->
  ok_of (build_runs fuel (runs_from (map fst m)) (keep_from gid (map fst m) maxgid) (map snd m)
                    offs data T e_off w ao ad) =
  option_map (fun od => (ao ++ fst od, ad ++ snd od))
             (ok_of (build_loop (Z.to_nat (maxgid + 1 - gid)) gid m offs data T e_off w)).
Proof.
  intros Hasc fuel gid m w ao ad Hgid Hok Hkeys Hfuel.
  destruct (build_loop (Z.to_nat (maxgid + 1 - gid)) gid m offs data T e_off w) as [e|[os' ds']] eqn:B.
  - destruct (build_runs fuel _ _ _ offs data T e_off w ao ad) as [e'|[os ds]] eqn:R; [reflexivity|].
    destruct (build_runs_sound offs data T e_off maxgid Hasc _ _ _ _ _ _ _ _ Hgid Hok Hkeys R) as [os' [ds' [B' _]]].
    congruence.
  - rewrite (build_runs_complete offs data T e_off maxgid Hasc _ _ _ _ ao ad _ _ Hgid Hok Hkeys Hfuel B).
    reflexivity.
Qed.
