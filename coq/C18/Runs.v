(* C18 — the literal run-by-run builder loop ([build_runs], = OffsetArrayBuilder::build as coded) returns,
   whenever it succeeds, exactly what the glyph-by-glyph specification [build_loop] returns *)
From Coq Require Import ZArith List Bool Lia.
From FV Require Import Lib.RustInt C18.Model C18.GkProofs.
Import ListNotations.
Open Scope Z_scope.
Ltac Zify.zify_post_hook ::= Z.div_mod_to_equations.

(* ---------- ascending offsets, slices ---------- *)
Lemma ascending_cons a l : ascending (a :: l) = true ->
  ascending l = true /\ forall j b, nth_error l j = Some b -> a <= b.
Proof.
  revert a. induction l as [|x r IH]; intros a H.
  - split; [reflexivity|]. intros [|j] b Hb; discriminate.
  - cbn [ascending] in H. apply andb_prop in H. destruct H as [H1 H2]. apply Z.leb_le in H1.
    split; [exact H2|]. intros [|j] b Hb.
    + cbn in Hb. inversion Hb; subst. exact H1.
    + cbn in Hb. destruct (IH _ H2) as [_ K]. specialize (K _ _ Hb). lia.
Qed.

Lemma ascending_nth l : ascending l = true -> forall i j a b, (i <= j)%nat ->
  nth_error l i = Some a -> nth_error l j = Some b -> a <= b.
Proof.
  induction l as [|x r IH]; intros H i j a b Hij Ha Hb; [destruct i; discriminate|].
  destruct (ascending_cons _ _ H) as [Hr Hx].
  destruct i, j; cbn in Ha, Hb.
  - inversion Ha; inversion Hb; subst; lia.
  - inversion Ha; subst. eapply Hx; eauto.
  - lia.
  - apply (IH Hr i j a b); [lia | exact Ha | exact Hb].
Qed.

Lemma nth_error_below {A} (l : list A) i j x : nth_error l j = Some x -> (i <= j)%nat -> exists y, nth_error l i = Some y.
Proof.
  intros H Hij. destruct (nth_error l i) eqn:E; [eauto|].
  apply nth_error_None in E. assert (nth_error l j = None) by (apply nth_error_None; lia). congruence.
Qed.

Lemma slice_inv b s e r : slice b s e = Some r ->
  0 <= s /\ s <= e /\ e <= len b /\ r = firstn (Z.to_nat (e - s)) (skipn (Z.to_nat s) b).
Proof.
  unfold slice. destruct ((0 <=? s) && (s <=? e) && (e <=? len b)) eqn:G; [|discriminate].
  apply andb_prop in G. destruct G as [G G3]. apply andb_prop in G. destruct G as [G1 G2].
  apply Z.leb_le in G1, G2, G3. intros H; inversion H. auto.
Qed.
Lemma slice_intro b s e : 0 <= s -> s <= e -> e <= len b ->
  slice b s e = Some (firstn (Z.to_nat (e - s)) (skipn (Z.to_nat s) b)).
Proof.
  intros. unfold slice.
  replace ((0 <=? s) && (s <=? e) && (e <=? len b)) with true; [reflexivity|].
  symmetry. repeat (apply andb_true_intro; split); apply Z.leb_le; lia.
Qed.

Lemma firstn_add_skip {A} (l : list A) n m : firstn (n + m) l = firstn n l ++ firstn m (skipn n l).
Proof.
  revert l. induction n as [|n IH]; intros l; [reflexivity|].
  destruct l; cbn; [now rewrite firstn_nil | now rewrite IH].
Qed.
Lemma skipn_add {A} (l : list A) n m : skipn (n + m) l = skipn m (skipn n l).
Proof.
  revert l. induction n as [|n IH]; intros l; [reflexivity|].
  destruct l; cbn; [now rewrite skipn_nil | apply IH].
Qed.

Lemma slice_split data a b c ch : slice data a c = Some ch -> a <= b <= c ->
  exists p q, slice data a b = Some p /\ slice data b c = Some q /\ ch = p ++ q.
Proof.
  intros H Hb. apply slice_inv in H. destruct H as [H0 [H1 [H2 ->]]].
  exists (firstn (Z.to_nat (b - a)) (skipn (Z.to_nat a) data)), (firstn (Z.to_nat (c - b)) (skipn (Z.to_nat b) data)).
  split; [apply slice_intro; lia|]. split; [apply slice_intro; lia|].
  replace (Z.to_nat (c - a)) with (Z.to_nat (b - a) + Z.to_nat (c - b))%nat by lia.
  rewrite firstn_add_skip. f_equal. f_equal. rewrite <- skipn_add. f_equal. lia.
Qed.

(* ---------- mapM extensionality ---------- *)
Lemma mapM_ext {A B} (f g : A -> res B) l : (forall x, In x l -> f x = g x) -> mapM f l = mapM g l.
Proof.
  induction l as [|x r IH]; intros H; [reflexivity|]. cbn.
  rewrite (H x (or_introl eq_refl)). destruct (g x); cbn; [reflexivity|].
  rewrite IH; [reflexivity|]. intros; apply H; now right.
Qed.

(* ---------- a run of kept glyphs ---------- *)
Lemma keep_run_loop offs data T e_off (m : gmap) : ascending offs = true ->
  forall n s w so eo chunk os n' os' ds',
  0 <= s ->
  nthZ offs s = Some so -> nthZ offs (s + Z.of_nat n) = Some eo ->
  slice data so eo = Some chunk ->
  mapM (keep_off offs T e_off so w) (zrange s n) = inr os ->
  Forall (fun gd => s + Z.of_nat n <= fst gd) m ->
  build_loop n' (s + Z.of_nat n) m offs data T e_off (w + (eo - so)) = inr (os', ds') ->
  build_loop (n + n') s m offs data T e_off w = inr (os ++ os', chunk ++ ds').
Proof.
  intros Hasc. induction n as [|n IH]; intros s w so eo chunk os n' os' ds' Hs Hso Heo Hch HM Hkeys HB.
  - cbn in HM. inversion HM; subst os. rewrite Z.add_0_r in *. rewrite Hso in Heo. inversion Heo; subst eo.
    apply slice_inv in Hch. destruct Hch as [_ [_ [_ ->]]]. rewrite Z.sub_diag in *. cbn [Z.to_nat firstn app].
    rewrite Z.add_0_r in HB. exact HB.
  - cbn [zrange] in HM. apply mapM_cons_inv in HM. destruct HM as [o0 [os0 [F0 [HM0 ->]]]].
    unfold keep_off in F0. rewrite Hso in F0. replace (so - so + w) with w in F0 by lia.
    destruct (off_fits T w) eqn:Fit; [|discriminate]. inversion F0; subst o0.
    (* the next offset exists and lies between *)
    rewrite (nthZ_nth offs s) in Hso by lia. rewrite (nthZ_nth offs (s + Z.of_nat (S n))) in Heo by lia.
    destruct (nth_error_below offs (Z.to_nat (s + 1)) _ _ Heo ltac:(lia)) as [c1 Hc1].
    pose proof (ascending_nth _ Hasc (Z.to_nat s) (Z.to_nat (s + 1)) so c1 ltac:(lia) Hso Hc1) as L1.
    pose proof (ascending_nth _ Hasc (Z.to_nat (s + 1)) (Z.to_nat (s + Z.of_nat (S n))) c1 eo ltac:(lia) Hc1 Heo) as L2.
    destruct (slice_split _ _ c1 _ _ Hch ltac:(lia)) as [p [q [Hp [Hq ->]]]].
    assert (Hrec : build_loop (n + n') (s + 1) m offs data T e_off (w + (c1 - so)) = inr (os0 ++ os', q ++ ds')).
    { apply (IH (s + 1) (w + (c1 - so)) c1 eo q os0 n' os' ds'); try lia.
      - rewrite nthZ_nth by lia. exact Hc1.
      - rewrite nthZ_nth by lia. rewrite <- Heo. f_equal. lia.
      - exact Hq.
      - rewrite <- HM0. apply mapM_ext. intros g _. unfold keep_off.
        destruct (nthZ offs g); [|reflexivity]. replace (z - c1 + (w + (c1 - so))) with (z - so + w) by lia. reflexivity.
      - eapply Forall_impl; [|exact Hkeys]. cbn; intros; lia.
      - rewrite <- HB. f_equal; lia. }
    change (S n + n')%nat with (S (n + n')). cbn [build_loop].
    assert (Hhead : match m with
                    | (g, d) :: r' => (g =? s) = false
                    | [] => True end).
    { destruct m as [|[g d] r']; [exact I|]. inversion Hkeys; subst. cbn in *. apply Z.eqb_neq. lia. }
    rewrite <- (nthZ_nth offs s) in Hso by lia. rewrite <- (nthZ_nth offs (s + 1)) in Hc1 by lia.
    destruct m as [|[g d] r']; [|rewrite Hhead]; rewrite Hso, Hc1, Hp, Fit, Hrec; cbn; now rewrite <- app_assoc.
Qed.

(* ---------- a run of replaced glyphs ---------- *)
Lemma rep_steps_loop offs data T e_off : forall ds w ao ad w2 o2 d2,
  rep_steps ds T w ao ad = inr (w2, o2, d2) ->
  exists xs ys, o2 = ao ++ xs /\ d2 = ad ++ ys /\
    forall s (block m' : gmap) n' os' ds',
      map snd block = ds -> map fst block = zrange s (length ds) ->
      build_loop n' (s + len ds) m' offs data T e_off w2 = inr (os', ds') ->
      build_loop (length ds + n') s (block ++ m') offs data T e_off w = inr (xs ++ os', ys ++ ds').
Proof.
  induction ds as [|d r IH]; intros w ao ad w2 o2 d2 H.
  - cbn in H. inversion H; subst. exists [], []. rewrite !app_nil_r. repeat split.
    intros s block m' n' os' ds' Hs Hk HB. destruct block; [|discriminate].
    cbn in *. rewrite Z.add_0_r in HB. exact HB.
  - cbn [rep_steps] in H. destruct (off_fits T w) eqn:Fit; [|discriminate].
    destruct (IH _ _ _ _ _ _ H) as [xs [ys [-> [-> K]]]].
    exists (w :: xs), (d ++ repeat 0 (Z.to_nat (padding T (len d))) ++ ys).
    split; [now rewrite <- app_assoc|]. split; [now rewrite <- !app_assoc|].
    intros s block m' n' os' ds' Hs Hk HB.
    destruct block as [|[g d0] block']; [discriminate|]. cbn in Hs, Hk. inversion Hs; subst d0. inversion Hk; subst g. clear Hs Hk.
    cbn [length Nat.add app build_loop]. rewrite Z.eqb_refl, Fit.
    match goal with HH : map snd block' = r |- _ => rename HH into Er end.
    match goal with HH : map fst block' = _ |- _ => rename HH into Ek end.
    subst r.
    rewrite (K (s + 1) block' m' n' os' ds'); [cbn; now rewrite <- !app_assoc | reflexivity | exact Ek |].
    rewrite <- HB. f_equal. rewrite len_cons. lia.
Qed.

(* ---------- runs of a sorted key list ---------- *)
Lemma runs_block : forall (m : gmap) g d, gm_ok ((g, d) :: m) ->
  exists block m' e rr,
    runs_from (map fst ((g, d) :: m)) = (g, e) :: rr /\ (g, d) :: m = block ++ m' /\
    (0 < length block)%nat /\ map fst block = zrange g (length block) /\ e = g + len block - 1 /\
    runs_from (map fst m') = rr /\ Forall (fun gd => e + 1 < fst gd) m' /\ gm_ok m'.
Proof.
  induction m as [|[g2 d2] m2 IH]; intros g d Hok.
  - exists [(g, d)], [], g, []. cbn. repeat split; auto; try lia; constructor.
  - inversion Hok as [|? ? ? Hall Hok2]; subst.
    destruct (IH g2 d2 Hok2) as [block2 [m' [e2 [rr2 [R [Eq [Lb [Kb [Ee [Rr [Fa Ok']]]]]]]]]]].
    cbn [map fst runs_from] in *. rewrite R.
    pose proof (Forall_inv Hall) as Hg2. pose proof (Forall_inv_tail Hall) as Hall2. cbn in Hg2.
    destruct (Z.eqb_spec g2 (g + 1)).
    + exists ((g, d) :: block2), m', e2, rr2. rewrite Eq. repeat split; auto.
      * cbn; lia.
      * cbn [map fst length zrange]. rewrite Kb. now subst g2.
      * rewrite len_cons. lia.
    + exists [(g, d)], ((g2, d2) :: m2), g, ((g2, e2) :: rr2). repeat split; auto.
      * unfold len; cbn; lia.
      * constructor; [cbn; lia|]. inversion Hok2 as [|? ? ? Hall3 _]; subst.
        eapply Forall_impl; [|exact Hall3]. cbn; intros; lia.
Qed.

Lemma keep_from_block lo k rest maxgid :
  keep_from lo (zrange lo k ++ rest) maxgid = keep_from (lo + Z.of_nat k) rest maxgid.
Proof.
  revert lo. induction k as [|k IH]; intros lo; [cbn; now rewrite Z.add_0_r|].
  cbn [zrange app keep_from]. rewrite Z.ltb_irrefl. cbn [andb app]. rewrite IH. f_equal. lia.
Qed.

Lemma keep_from_head (m : gmap) : gm_ok m -> forall lo maxgid a b rest,
  Forall (fun gd => lo <= fst gd) m -> keep_from lo (map fst m) maxgid = (a, b) :: rest -> lo <= a.
Proof.
  induction 1 as [|g d r Hall Hok IH]; intros lo maxgid a b rest Hge H.
  - cbn in H. destruct (lo <=? maxgid); inversion H; lia.
  - cbn [map fst keep_from] in H. inversion Hge as [|? ? Hg _]; subst. cbn in Hg.
    destruct ((lo <? g) && (lo <=? maxgid)); cbn [app] in H; [inversion H; lia|].
    assert (g + 1 <= a); [|lia].
    eapply IH; [|exact H]. eapply Forall_impl; [|exact Hall]. cbn; intros; lia.
Qed.

Lemma zrange_last_in : forall k s, (0 < k)%nat -> In (s + Z.of_nat k - 1) (zrange s k).
Proof.
  induction k as [|k IHk]; intros s Hk; [lia|]. cbn [zrange].
  destruct k; [left; lia|]. right. replace (s + Z.of_nat (S (S k)) - 1) with (s + 1 + Z.of_nat (S k) - 1) by lia.
  apply IHk. lia.
Qed.

(* ---------- the literal loop refines the specification ---------- *)
Lemma build_runs_sound offs data T e_off maxgid : ascending offs = true ->
  forall fuel gid (m : gmap) w ao ad os ds,
  0 <= gid <= maxgid + 1 -> gm_ok m -> Forall (fun gd => gid <= fst gd <= maxgid) m ->
  build_runs fuel (runs_from (map fst m)) (keep_from gid (map fst m) maxgid) (map snd m)
             offs data T e_off w ao ad = inr (os, ds) ->
  exists os' ds', build_loop (Z.to_nat (maxgid + 1 - gid)) gid m offs data T e_off w = inr (os', ds') /\
                  os = ao ++ os' /\ ds = ad ++ ds'.
Proof.
  intros Hasc. induction fuel as [|fuel IH]; intros gid m w ao ad os ds Hgid Hok Hkeys H; [discriminate|].
  (* a kept run (s, e) followed by the rest *)
  assert (KEEP : forall e (m0 : gmap) rep keep',
     gid <= e <= maxgid -> gm_ok m0 -> Forall (fun gd => e + 1 <= fst gd <= maxgid) m0 ->
     rep = runs_from (map fst m0) -> keep' = keep_from (e + 1) (map fst m0) maxgid ->
     (let? (w2, o2, d2) := keep_run (gid, e) offs data T e_off w ao ad in
      build_runs fuel rep keep' (map snd m0) offs data T e_off w2 o2 d2) = inr (os, ds) ->
     exists os' ds', build_loop (Z.to_nat (maxgid + 1 - gid)) gid m0 offs data T e_off w = inr (os', ds') /\
                     os = ao ++ os' /\ ds = ad ++ ds').
  { intros e m0 rep keep' He Hok0 Hk0 -> -> K.
    unfold keep_run in K. cbn [fst snd] in K.
    destruct (nthZ offs gid) as [so|] eqn:Eso; [|discriminate].
    destruct (nthZ offs (e + 1)) as [eo|] eqn:Eeo; [|discriminate].
    destruct (eo <? so); [discriminate|].
    destruct (slice data so eo) as [chunk|] eqn:Ech; [|discriminate].
    destruct (mapM (keep_off offs T e_off so w) (zrange gid (run_len (gid, e)))) as [?|osr] eqn:EM; cbn [bind] in K; [discriminate|].
    destruct (IH (e + 1) m0 _ _ _ _ _ ltac:(lia) Hok0 Hk0 K) as [os' [ds' [B [-> ->]]]].
    unfold run_len in EM. cbn [fst snd] in EM.
    exists (osr ++ os'), (chunk ++ ds'). rewrite !app_assoc. repeat split.
    replace (Z.to_nat (maxgid + 1 - gid)) with (Z.to_nat (e - gid + 1) + Z.to_nat (maxgid + 1 - (e + 1)))%nat by lia.
    eapply keep_run_loop; eauto; try lia.
    - rewrite <- Eeo. f_equal. lia.
    - eapply Forall_impl; [|exact Hk0]. cbn; intros; lia.
    - rewrite <- B. f_equal; lia. }
  destruct m as [|[g d] m0].
  - (* nothing left to replace *)
    cbn [map runs_from keep_from] in H. destruct (Z.leb_spec gid maxgid).
    + cbn [build_runs] in H. eapply (KEEP maxgid [] [] []); eauto; try lia; try constructor.
      cbn. destruct (Z.leb_spec (maxgid + 1) maxgid); [lia | reflexivity].
    + cbn [build_runs] in H. destruct (off_fits T w) eqn:Fit; [|discriminate]. inversion H; subst.
      replace (Z.to_nat (maxgid + 1 - gid)) with 0%nat by lia. cbn [build_loop]. rewrite Fit.
      exists [w], []. now rewrite app_nil_r.
  - inversion Hkeys as [|? ? Hg Hkeys0]; subst. cbn in Hg.
    pose proof Hok as Hok_all. inversion Hok as [|? ? ? Hall Hok0]; subst.
    destruct (runs_block m0 g d Hok_all) as [block [m' [e [rr [R [Eq [Lb [Kb [Ee [Rr [Fa Ok']]]]]]]]]]].
    destruct (Z.eq_dec gid g) as [->|Hne].
    + (* a replaced run *)
      rewrite R in H. cbn [map fst keep_from] in H. rewrite Z.ltb_irrefl in H. cbn [andb app] in H.
      assert (Hblock_keys : Forall (fun gd => g <= fst gd <= maxgid) (block ++ m')) by (rewrite <- Eq; exact Hkeys).
      assert (He : e <= maxgid).
      { assert (In e (map fst block)) as H0.
        { rewrite Kb. subst e. unfold len. apply zrange_last_in. exact Lb. }
        apply in_map_iff in H0. destruct H0 as [[ke de] [Hke Hin]]. cbn in Hke. subst ke.
        rewrite Forall_forall in Hblock_keys. specialize (Hblock_keys (e, de)). cbn in Hblock_keys.
        apply Hblock_keys. apply in_or_app. now left. }
      assert (DOREP : (let? (w2, o2, d2) := rep_run (g, e) (map snd ((g, d) :: m0)) T w ao ad in
                       build_runs fuel rr (keep_from (g + 1) (map fst m0) maxgid)
                                  (skipn (run_len (g, e)) (map snd ((g, d) :: m0))) offs data T e_off w2 o2 d2) = inr (os, ds)).
      { cbn [build_runs] in H. destruct (keep_from (g + 1) (map fst m0) maxgid) as [|[a b] keep'] eqn:EK; [exact H|].
        cbn [fst] in H. replace (g <=? a) with true in H; [exact H|].
        symmetry. apply Z.leb_le. assert (g + 1 <= a); [|lia].
        eapply (keep_from_head m0 Hok0); [|exact EK]. eapply Forall_impl; [|exact Hall]. cbn; intros; lia. }
      clear H. unfold rep_run, run_len in DOREP. cbn [fst snd] in DOREP.
      assert (Hn : Z.to_nat (e - g + 1) = length block) by (subst e; unfold len; lia).
      rewrite Hn in DOREP. rewrite Eq in DOREP. rewrite map_app in DOREP.
      assert (Hlb : length (map snd block) = length block) by apply map_length.
      assert (F1 : firstn (length block) (map snd block ++ map snd m') = map snd block).
      { rewrite <- Hlb. rewrite firstn_app, Nat.sub_diag, firstn_all. cbn. apply app_nil_r. }
      assert (S1 : skipn (length block) (map snd block ++ map snd m') = map snd m').
      { rewrite <- Hlb. rewrite skipn_app, Nat.sub_diag, skipn_all. reflexivity. }
      rewrite F1, S1 in DOREP.
      destruct (Nat.ltb_spec (length (map snd block ++ map snd m')) (length block)) as [Hlt|_].
      { rewrite app_length, Hlb in Hlt. lia. }
      destruct (rep_steps (map snd block) T w ao ad) as [?|[[w2 o2] d2]] eqn:ER; cbn [bind] in DOREP; [discriminate|].
      destruct (rep_steps_loop offs data T e_off _ _ _ _ _ _ _ ER) as [xs [ys [-> [-> K]]]].
      (* the remaining keep list is the one for gid = e + 1 *)
      assert (HK : keep_from (g + 1) (map fst m0) maxgid = keep_from (e + 1) (map fst m') maxgid).
      { assert (map fst m0 = zrange (g + 1) (length block - 1) ++ map fst m').
        { assert (E2 : map fst ((g, d) :: m0) = map fst (block ++ m')) by now rewrite Eq.
          rewrite map_app, Kb in E2. destruct (length block) as [|k] eqn:Elen; [lia|].
          cbn [zrange map fst app] in E2. inversion E2. now replace (S k - 1)%nat with k by lia. }
        rewrite H. rewrite keep_from_block. f_equal. subst e. unfold len. lia. }
      rewrite HK, <- Rr in DOREP.
      assert (Hk' : Forall (fun gd => e + 1 <= fst gd <= maxgid) m').
      { rewrite Forall_forall in *. intros x Hx. specialize (Fa x Hx). specialize (Hblock_keys x (in_or_app _ _ _ (or_intror Hx))). lia. }
      destruct (IH (e + 1) m' _ _ _ _ _ ltac:(lia) Ok' Hk' DOREP) as [os' [ds' [B [-> ->]]]].
      exists (xs ++ os'), (ys ++ ds'). rewrite !app_assoc. repeat split.
      rewrite Eq.
      replace (Z.to_nat (maxgid + 1 - g)) with (length (map snd block) + Z.to_nat (maxgid + 1 - (e + 1)))%nat by (rewrite Hlb; lia).
      apply K; [reflexivity | now rewrite Hlb |].
      rewrite <- B. f_equal. unfold len. rewrite Hlb. subst e. unfold len. lia.
    + (* a kept run up to the next replaced glyph *)
      assert (Hlt : gid < g) by lia.
      rewrite R in H. cbn [map fst keep_from] in H.
      replace ((gid <? g) && (gid <=? maxgid)) with true in H
        by (symmetry; apply andb_true_intro; split; [apply Z.ltb_lt | apply Z.leb_le]; lia).
      replace (Z.min (g - 1) maxgid) with (g - 1) in H by lia. cbn [app] in H.
      cbn [build_runs] in H. cbn [fst] in H. replace (g <=? gid) with false in H by (symmetry; apply Z.leb_gt; lia).
      eapply (KEEP (g - 1) ((g, d) :: m0)); eauto; try lia.
      * constructor; [cbn; lia|]. rewrite Forall_forall in *. intros x Hx.
        specialize (Hkeys0 x Hx). specialize (Hall x Hx). lia.
      * rewrite R. cbn [map fst keep_from]. replace (g - 1 + 1) with g by lia.
        rewrite Z.ltb_irrefl. cbn [andb app]. exact H.
Qed.
