(* C18 — property theorems.  Only statements, [exact lemma] and Print Assumptions.
   [dec] (the brotli decoder) is universally quantified in every statement that mentions it. *)
From Coq Require Import ZArith List Bool Permutation.
From FV Require Import Lib.RustInt C18.Model C18.Proofs C18.Runs2 C18.Grouping2.
Import ListNotations.
Open Scope Z_scope.

(* table keyed: each patched table is the decoder's output for the FIRST entry naming it (replacement:
   no dictionary; diff: the base table as dictionary), dropped tables are absent, every other table is
   byte-identical — for every decoder *)
Theorem c18_table_keyed_exact : forall dec f fmt offs p F, NoDup (map fst f) ->
  apply_table_keyed dec f fmt offs p = inr F ->
  forall x,
    match tk_first (tk_entries p offs) x with
    | None => lookup F x = lookup f x
    | Some (t, fl, ml, s) =>
        if Z.testbit fl 1 then lookup F x = None
        else exists k out, dec k s (if Z.testbit fl 0 then None else lookup f x) ml = inr out /\
                           lookup F x = Some out
    end.
Proof. exact apply_table_keyed_exact. Qed.

(* a compatibility id that differs (PatchInfo vs font, or patch vs font) gives IncompatiblePatch
   whatever the decoder would do: no decoder call can influence the outcome *)
Theorem c18_incompatible_before_any_decode : forall f info p cid,
  font_compat_id f (pi_tbl info) = inr cid ->
  (bytes_eqb cid (pi_compat info) = false \/
   exists fmt pcid offs, tk_header p = inr (fmt, pcid, offs) /\ bytes_eqb pcid cid = false) ->
  forall dec, apply_table_keyed_patch dec f info p = inl (4, 0).
Proof. exact tk_incompatible_no_decode. Qed.

(* the decoder's dictionary argument: a REPLACE entry is decoded WITHOUT dictionary whatever the base font
   holds; a diff entry is decoded against exactly the base table *)
Theorem c18_replace_ignores_base : forall dec f fmt offs p F x t fl ml s, NoDup (map fst f) ->
  apply_table_keyed dec f fmt offs p = inr F ->
  tk_first (tk_entries p offs) x = Some (t, fl, ml, s) ->
  Z.testbit fl 1 = false -> Z.testbit fl 0 = true ->
  exists k out, dec k s None ml = inr out /\ lookup F x = Some out.
Proof. exact replace_ignores_base. Qed.
Theorem c18_diff_uses_base : forall dec f fmt offs p F x t fl ml s, NoDup (map fst f) ->
  apply_table_keyed dec f fmt offs p = inr F ->
  tk_first (tk_entries p offs) x = Some (t, fl, ml, s) ->
  Z.testbit fl 1 = false -> Z.testbit fl 0 = false ->
  exists k out base, lookup f x = Some base /\ dec k s (Some base) ml = inr out /\ lookup F x = Some out.
Proof. exact diff_uses_base. Qed.

(* glyph keyed, on the offset-array abstraction: in the new (offsets, data) every glyph's slice is the
   kept replacement data padded as the offset type requires if some patch lists the glyph, else the
   glyph's old slice *)
Theorem c18_glyph_keyed_exact : forall views t offs data T avail e_off maxgid T' os ds,
  patch_offset_array views t offs data T avail e_off maxgid = inr (T', os, ds) -> 0 <= maxgid ->
  exists m, dedup views t = inr m /\
   (Forall (fun gd => 0 <= fst gd) m ->
    forall g, 0 <= g <= maxgid ->
      exists a b s, nthZ os g = Some a /\ nthZ os (g + 1) = Some b /\
                    new_slice T' m offs data g = Some s /\ slice ds a b = Some s).
Proof. exact poa_exact. Qed.

(* ... and the kept replacement data for a glyph is the FIRST one listed for it, in patch order *)
Theorem c18_first_patch_wins : forall views t m, dedup views t = inr m ->
  exists items, mapM (fun v => gp_items v t) views = inr items /\
                forall g, lookup m g = first_data (concat items) g.
Proof. exact dedup_first_wins. Qed.

(* offsets ascending, numGlyphs+1 of them, first 0, last = data length, all representable *)
Theorem c18_offsets_ascending : forall views t offs data T avail e_off maxgid T' os ds,
  patch_offset_array views t offs data T avail e_off maxgid = inr (T', os, ds) -> 0 <= maxgid ->
  (forall m, dedup views t = inr m -> Forall (fun gd => 0 <= fst gd) m) ->
  ascending os = true /\ len os = maxgid + 2 /\ nthZ os 0 = Some 0 /\ last os 0 = len ds /\
  Forall (fun x => off_fits T' x = true) os.
Proof. exact poa_offsets. Qed.

Theorem c18_offset_type_widens_only_when_needed : forall views t offs data T avail e_off maxgid T' os ds,
  patch_offset_array views t offs data T avail e_off maxgid = inr (T', os, ds) -> 0 <= maxgid ->
  (forall m, dedup views t = inr m -> Forall (fun gd => 0 <= fst gd) m) ->
  Forall (fun x => off_fits T' x = true) os /\
  exists total,
    (total <= ot_max T /\ T' = T) \/
    (ot_max T < total /\ total <= ot_max T' /\
     exists pre post, avail = pre ++ T' :: post /\ Forall (fun c => ot_max c < total) pre).
Proof. exact poa_type_widens_only_when_needed. Qed.

(* the literal builder loop (OffsetArrayBuilder::build as coded: maximal runs of replaced / kept gids)
   returns, whenever it succeeds under the checks patch_offset_array makes first, exactly the glyph-by-glyph
   specification's offsets and data — so the theorems above are about the loop as coded *)
Theorem c18_run_loop_is_glyph_loop : forall offs data T e_off maxgid, ascending offs = true ->
  forall fuel gid (m : gmap) w ao ad os ds,
  0 <= gid <= maxgid + 1 -> gm_ok m -> Forall (fun gd => gid <= fst gd <= maxgid) m ->
  build_runs fuel (runs_from (map fst m)) (keep_from gid (map fst m) maxgid) (map snd m)
             offs data T e_off w ao ad = inr (os, ds) ->
  exists os' ds', build_loop (Z.to_nat (maxgid + 1 - gid)) gid m offs data T e_off w = inr (os', ds') /\
                  os = ao ++ os' /\ ds = ad ++ ds'.
Proof. exact build_runs_sound. Qed.

(* glyf/loca instance: new glyf = builder data, new loca = encoded builder offsets, same loca format *)
Theorem c18_glyf_loca_are_the_builder_output : forall f views maxgid adds,
  patch_glyf f views maxgid = inr adds ->
  exists glyf T offs os ds,
    lookup f T_glyf = Some glyf /\ read_loca f = Some (T, offs) /\
    patch_offset_array views T_glyf offs glyf T [T] (6, 10) maxgid = inr (T, os, ds) /\
    adds = [(T_glyf, ds); (T_loca, encode_offsets T os)].
Proof. exact patch_glyf_inv. Qed.

(* gvar instance: the offset-array theorems apply to (offsets shifted by the data array offset, whole table);
   the rebuilt table is assembled from the builder output by gvar_assemble *)
Theorem c18_gvar_is_the_builder_output : forall f views maxgid adds,
  patch_gvar f views maxgid = inr adds ->
  exists g axis stc sto gc fl dao T offs T' os ds g',
    lookup f T_gvar = Some g /\ read_gvar g = Some (axis, stc, sto, gc, fl, dao, T, offs) /\
    patch_offset_array views T_gvar (map (fun o => dao + o) offs) g T [ot_short; ot_long] (2, 1) maxgid = inr (T', os, ds) /\
    gvar_assemble g (axis, stc, sto, gc, fl, dao, T, offs) T' os ds = inr g' /\ adds = [(T_gvar, g')].
Proof. exact patch_gvar_inv. Qed.

Theorem c18_other_tables_identical : forall f infos views F x, NoDup (map fst f) ->
  gk_core f infos views = inr F ->
  x <> T_glyf -> x <> T_loca -> x <> T_gvar -> x <> T_CFF -> x <> T_CFF2 -> x <> T_IFT -> x <> T_IFTX ->
  lookup F x = lookup f x.
Proof. exact gk_core_other_tables. Qed.

(* applied bits: one application-flag update touches exactly one byte, OR-ing 1 << bit into it ... *)
Theorem c18_applied_bit_update_exact : forall d i b d', set_bit d i b = Some d' ->
  length d' = length d /\
  forall k, nth_error d' k =
            if Nat.eqb k i then option_map (fun x => Z.lor x (Z.shiftl 1 b)) (nth_error d k) else nth_error d k.
Proof. exact set_bit_spec. Qed.
(* ... and the result of marking a set of patches does not depend on their order *)
Theorem c18_applied_bits_order_independent : forall l l', Permutation l l' ->
  forall st, mark_all st l = mark_all st l'.
Proof. exact mark_all_perm. Qed.

(* exactly the applied bits are set, for a whole set of patches: bit j of byte k of IFT (c = true) /
   IFTX (c = false) afterwards = old value OR "some applied patch of that table has bit index 8k+j";
   lengths unchanged, an absent table stays absent *)
Theorem c18_applied_bits_exact : forall c infos st st', mark_all st infos = inr st' ->
  Forall (fun i => 0 <= pi_bit i) infos ->
  (side c st = None -> side c st' = None) /\
  (forall d, side c st = Some d -> exists d', side c st' = Some d' /\ length d' = length d /\
     forall k x, nth_error d k = Some x -> exists x', nth_error d' k = Some x' /\
       forall j, 0 <= j -> Z.testbit x' j = Z.testbit x j || existsb (hits1 c k j) infos).
Proof. exact mark_all_spec. Qed.

(* atomic bookkeeping: for EVERY decoder (hence every failure index and error kind), every font and
   every status map, an error leaves the caller's status map exactly as it was *)
Theorem c18_error_leaves_bookkeeping : forall dec f inv noninv st e st',
  apply_next dec f inv noninv st = (inl e, st') -> st' = st.
Proof. exact apply_next_error_leaves_bookkeeping. Qed.

Theorem c18_success_flips_exactly_applied : forall dec f inv noninv st F st',
  apply_next dec f inv noninv st = (inr F, st') ->
  (exists p, inv = Some p /\ (exists d, lookup st (pi_uri p) = Some (Some d)) /\ st' = set_applied st (pi_uri p)) \/
  st' = fold_left (fun s i => set_applied s (pi_uri i)) noninv st.
Proof. exact apply_next_success_flips. Qed.

(* glyph keyed patches that agree on shared glyphs: any permutation gives the identical font (all tables) *)
Theorem c18_order_independent : forall f (ivs ivs' : list (pinfo * gp)) F,
  Permutation ivs ivs' -> agree_all (map snd ivs) ->
  gk_core f (map fst ivs) (map snd ivs) = inr F -> gk_core f (map fst ivs') (map snd ivs') = inr F.
Proof. exact gk_core_perm. Qed.

(* grouping independence: applying ps1 ++ ps2 in one call gives the same font (every table) as applying
   ps1 and then ps2 to the result, for glyph keyed patches on glyf/loca that agree on shared glyphs
   (hypotheses: base font tables sorted by tag as FontBuilder emits them; glyph ids and numGlyphs are
   unsigned; the patches list only glyf among the glyph-indexed tables (glyf_only) — for gvar / CFF / CFF2
   the statement is only tested) *)
Theorem c18_grouping_independent : forall f i1 i2 v1 v2 F12 F1 F2,
  gm_ok f -> gids_nonneg (v1 ++ v2) -> views_agree T_glyf (v1 ++ v2) ->
  (forall mx ng, lookup f T_maxp = Some mx -> uN_at 2 mx 4 = Some ng -> 0 <= ng) ->
  glyf_only (v1 ++ v2) ->
  gk_core f (i1 ++ i2) (v1 ++ v2) = inr F12 ->
  gk_core f i1 v1 = inr F1 -> gk_core F1 i2 v2 = inr F2 -> F2 = F12.
Proof. exact gk_core_grouping. Qed.

(* ... and for ANY partition of the patch set into successive calls, in any order: the sequence of calls
   yields the one-call font (gk_partition), hence two partitions of permuted patch sets yield the same
   font.  Hypotheses (prefix_ok): the patches agree on shared glyph ids — which the IFT specification
   requires — and the one-call application of every prefix of the partition succeeds (a prefix can fail
   where the whole succeeds, e.g. by exceeding the short-loca limit before a later patch shrinks a glyph).
   Without agreement the statement is false: Examples.v c18_grouping_refuted. *)
Theorem c18_partition_independent : forall f, gm_ok f ->
  (forall mx ng, lookup f T_maxp = Some mx -> uN_at 2 mx 4 = Some ng -> 0 <= ng) ->
  forall blocks Fs,
  gids_nonneg (map snd (concat blocks)) -> glyf_only (map snd (concat blocks)) ->
  prefix_ok f blocks -> gk_seq f blocks = inr Fs -> one_call f blocks = inr Fs.
Proof. exact gk_partition. Qed.
Theorem c18_any_partition_same_font : forall f blocks blocks' Fs Fs', gm_ok f ->
  (forall mx ng, lookup f T_maxp = Some mx -> uN_at 2 mx 4 = Some ng -> 0 <= ng) ->
  Permutation (concat blocks) (concat blocks') ->
  agree_all (map snd (concat blocks)) ->
  gids_nonneg (map snd (concat blocks)) -> glyf_only (map snd (concat blocks)) ->
  gids_nonneg (map snd (concat blocks')) -> glyf_only (map snd (concat blocks')) ->
  prefix_ok f blocks -> prefix_ok f blocks' ->
  gk_seq f blocks = inr Fs -> gk_seq f blocks' = inr Fs' -> Fs' = Fs.
Proof. exact gk_any_partition. Qed.
(* bookkeeping of successive calls = bookkeeping of one call, in any order *)
Theorem c18_statuses_partition : forall (blocks : list (list pinfo)) (st : statuses),
  fold_left (fun s b => fold_left (fun s (i : pinfo) => set_applied s (pi_uri i)) b s) blocks st =
  fold_left (fun s i => set_applied s (pi_uri i)) (concat blocks) st.
Proof. exact statuses_partition. Qed.
Theorem c18_statuses_order_independent : forall l l', Permutation l l' -> forall st : statuses,
  fold_left (fun s (i : pinfo) => set_applied s (pi_uri i)) l st = fold_left (fun s i => set_applied s (pi_uri i)) l' st.
Proof. exact statuses_perm. Qed.

(* glyf short-loca (in general: any offset array whose only available type is its own) overflow:
   SerializationError(OFFSET_OVERFLOW), and a failing glyf branch fails the whole application — no font is
   produced, and by c18_error_leaves_bookkeeping the caller's status map is untouched *)
Theorem c18_short_loca_overflow_is_error : forall f views maxgid glyf T offs m total0,
  lookup f T_glyf = Some glyf -> read_loca f = Some (T, offs) ->
  dedup views T_glyf = inr m ->
  retained_total (keep_from 0 (map fst m) maxgid) offs (6, 10) 0 = inr total0 ->
  ot_max T < fold_left (fun a gd => a + (len (snd gd) + len (snd gd) mod ot_div T)) m total0 ->
  patch_glyf f views maxgid = inl (3, 2).
Proof. exact glyf_overflow_is_error. Qed.
Theorem c18_failing_glyf_branch_fails_everything : forall f infos views mx ng e,
  lookup f T_maxp = Some mx -> uN_at 2 mx 4 = Some ng -> (ng =? 0) = false ->
  forallb (fun v => strictly_ascending (gp_tables v)) views = true ->
  lists_tag views T_CFF = false -> lists_tag views T_CFF2 = false -> lists_tag views T_glyf = true ->
  patch_glyf f views (ng - 1) = inl e -> gk_core f infos views = inl e.
Proof. exact gk_core_glyf_error. Qed.
(* the loca written back is readable with the UNCHANGED head.indexToLocFormat, has numGlyphs + 1 ascending
   entries and decodes to exactly the builder's offsets *)
Theorem c18_loca_width_matches_head : forall f infos views F T offs,
  gm_ok f -> glyf_only views -> gids_nonneg views ->
  (forall mx ng, lookup f T_maxp = Some mx -> uN_at 2 mx 4 = Some ng -> 0 <= ng) ->
  gk_core f infos views = inr F -> lists_tag views T_glyf = true -> read_loca f = Some (T, offs) ->
  lookup F T_head = lookup f T_head /\
  exists os ng mx, lookup f T_maxp = Some mx /\ uN_at 2 mx 4 = Some ng /\
    read_loca F = Some (T, os) /\ len os = ng + 1 /\ ascending os = true /\
    lookup F T_loca = Some (encode_offsets T os).
Proof. exact loca_width_matches_head. Qed.

(* CFF / CFF2 instance: the charstrings INDEX is patch_offset_array on (1-based offsets minus 1, object
   data) with the four CFF offset types, so c18_glyph_keyed_exact / c18_offsets_ascending /
   c18_offset_type_widens_only_when_needed apply; the table is prefix ++ count ++ offSize ++ offsets ++ data *)
Theorem c18_cff_is_the_builder_output : forall cw tg c2 f views maxgid adds,
  patch_cff cw tg c2 f views maxgid = inr adds ->
  exists cs_off tbl count offsz T' os ds,
    ift_charstrings_offset f c2 = Some cs_off /\ lookup f tg = Some tbl /\
    uN_at cw (skipn (Z.to_nat cs_off) tbl) 0 = Some count /\ uN_at 1 (skipn (Z.to_nat cs_off) tbl) cw = Some offsz /\
    1 <= offsz <= 4 /\ count = maxgid + 1 /\
    patch_offset_array views tg
      (map (fun x => x - 1) (chunks (Z.to_nat offsz) (Z.to_nat (count + 1)) (skipn (Z.to_nat (cw + 1)) (skipn (Z.to_nat cs_off) tbl))))
      (skipn (Z.to_nat (cw + 1 + (count + 1) * offsz)) (skipn (Z.to_nat cs_off) tbl))
      (ot_cff offsz) cff_types (2, 1) maxgid = inr (T', os, ds) /\
    adds = [(tg, firstn (Z.to_nat cs_off) tbl ++ to_be (Z.to_nat cw) count ++ [ot_width T'] ++ encode_offsets T' os ++ ds)].
Proof. exact patch_cff_inv. Qed.
(* the exactness theorem for an ascending check that looks only at some of the offsets [chk] (the CFF
   behaviour before /repo 6183e73): it needs the extra hypothesis that passing the partial check implies all
   offsets ascend — without it the conclusion fails (Examples.v c18_cff_last_offset_refuted) *)
Theorem c18_glyph_keyed_exact_partial_check : forall views t offs chk data T avail e_off maxgid T' os ds,
  patch_offset_array_gen views t offs chk data T avail e_off maxgid = inr (T', os, ds) -> 0 <= maxgid ->
  (ascending chk = true -> ascending offs = true) ->
  exists m, dedup views t = inr m /\
   (Forall (fun gd => 0 <= fst gd) m ->
    forall g, 0 <= g <= maxgid ->
      exists a b s, nthZ os g = Some a /\ nthZ os (g + 1) = Some b /\
                    new_slice T' m offs data g = Some s /\ slice ds a b = Some s).
Proof. exact poa_gen_exact. Qed.


(* offset width vs order of calls: if the data size after the first call does not exceed the size after the
   second (growth-only patches) deciding the width twice = deciding it once, so widening is independent of
   order and grouping; in general it is not (widths never narrow): Examples.v c18_width_order_independent_refuted *)
Theorem c18_width_order_independent_growth_only : forall T avail total1 total2, total1 <= total2 ->
  (let? T1 := choose_type T avail total1 in choose_type T1 avail total2) =
  (let? _ := choose_type T avail total1 in choose_type T avail total2).
Proof. exact choose_type_growth_only. Qed.

(* the GlyphPatches container is decoded from the real patch BYTES with the patch's OWN glyph-id width
   flag; decoding inverts the encoder for both widths (u16 and u24 glyph ids) — reading a patch with another
   patch's width mis-parses it: Examples.v c18_wrong_id_width_misparses *)
Theorem c18_glyph_patches_decode_encode : forall wide gids tables offs blob,
  Forall (fun g => 0 <= g < 256 ^ Z.of_nat (idw wide)) gids ->
  Forall (fun t => 0 <= t < 256 ^ 4) tables -> Forall (fun o => 0 <= o < 256 ^ 4) offs ->
  len gids < 256 ^ 4 -> len tables < 256 ->
  length offs = (length gids * length tables + 1)%nat ->
  gp_read (gp_encode wide gids tables offs blob) wide =
  inr {| gp_gids := gids; gp_tables := tables; gp_offs := offs; gp_raw := gp_encode wide gids tables offs blob |}.
Proof. exact gp_read_encode. Qed.

(* ---------- round 7 ---------- *)
(* the converse of c18_run_loop_is_glyph_loop: whenever the glyph-by-glyph specification succeeds, the literal
   run-by-run loop (given fuel for one iteration per run, as patch_offset_array supplies) returns the same offsets
   and data appended to its accumulators *)
Theorem c18_run_loop_complete : forall offs data T e_off maxgid, ascending offs = true ->
  forall fuel gid (m : gmap) w ao ad os' ds',
  0 <= gid <= maxgid + 1 -> gm_ok m -> Forall (fun gd => gid <= fst gd <= maxgid) m ->
  (length (runs_from (map fst m)) + length (keep_from gid (map fst m) maxgid) < fuel)%nat ->
  build_loop (Z.to_nat (maxgid + 1 - gid)) gid m offs data T e_off w = inr (os', ds') ->
  build_runs fuel (runs_from (map fst m)) (keep_from gid (map fst m) maxgid) (map snd m)
             offs data T e_off w ao ad = inr (ao ++ os', ad ++ ds').
Proof. exact build_runs_complete. Qed.
(* hence literal loop and specification succeed on exactly the same inputs (any sorted duplicate-free gid map
   with replacement data, any ascending base offsets, any data, any offset type, any start glyph / running
   offset / accumulators) with exactly the same offsets and data.  The error VALUES may differ
   (Examples2.v c18_run_loop_error_differs), so the equality is on the success part [ok_of]. *)
Theorem c18_build_runs_eq_build_loop : forall offs data T e_off maxgid, ascending offs = true ->
  forall fuel gid (m : gmap) w ao ad,
  0 <= gid <= maxgid + 1 -> gm_ok m -> Forall (fun gd => gid <= fst gd <= maxgid) m ->
  (length (runs_from (map fst m)) + length (keep_from gid (map fst m) maxgid) < fuel)%nat ->
  ok_of (build_runs fuel (runs_from (map fst m)) (keep_from gid (map fst m) maxgid) (map snd m)
                    offs data T e_off w ao ad) =
  option_map (fun od => (ao ++ fst od, ad ++ snd od))
             (ok_of (build_loop (Z.to_nat (maxgid + 1 - gid)) gid m offs data T e_off w)).
Proof. exact build_runs_eq_build_loop. Qed.
(* ... and patch_offset_array as coded (literal loop, the fuel it passes) = patch_offset_array over the
   specification loop, on the success part *)
Theorem c18_patch_offset_array_is_spec : forall views t offs chk data T avail e_off maxgid, 0 <= maxgid ->
  (ascending chk = true -> ascending offs = true) ->
  (forall m, dedup views t = inr m -> Forall (fun gd => 0 <= fst gd) m) ->
  ok_of (patch_offset_array_gen views t offs chk data T avail e_off maxgid) =
  ok_of (patch_offset_array_spec views t offs chk data T avail e_off maxgid).
Proof. exact poa_is_spec. Qed.

(* grouping independence of the generic offset array (the glyf, gvar, CFF and CFF2 branches all go through
   patch_offset_array): one call with v1 ++ v2 gives the same offsets and data as v1 and then v2 on what the
   next call reads back, if the patches agree on shared glyphs, the re-read array has the builder's per-glyph
   slices, and the offset type T' is the same in the three applications.  The last hypothesis cannot be dropped
   (widths never narrow: F-C18-4).
   NOT proved: c18_grouping_independent_gvar as equality of whole fonts with gvar listed — missing is
   read_gvar (gvar_assemble ..) = the same header with the builder's offsets (byte-level re-read of the
   20-byte header, flag byte, shared tuples); the data placement part is c18_gvar_data_placement_slices. *)
Theorem c18_offset_array_grouping : forall v1 v2 t offs data offs2 data2 T T' avail e_off e_off2 maxgid os1 ds1 os2 ds2 os12 ds12,
  0 <= maxgid -> gids_nonneg (v1 ++ v2) -> views_agree t (v1 ++ v2) ->
  patch_offset_array v1 t offs data T avail e_off maxgid = inr (T', os1, ds1) ->
  patch_offset_array v2 t offs2 data2 T' avail e_off2 maxgid = inr (T', os2, ds2) ->
  patch_offset_array (v1 ++ v2) t offs data T avail e_off maxgid = inr (T', os12, ds12) ->
  (forall g, 0 <= g <= maxgid -> old_slice offs2 data2 g = old_slice os1 ds1 g) ->
  os2 = os12 /\ ds2 = ds12.
Proof. exact poa_grouping. Qed.
Theorem c18_gvar_data_placement_slices : forall (pre ds : bytes) (os : list Z) g,
  Forall (fun o => 0 <= o) os -> 0 <= g ->
  old_slice (map (fun o => len pre + o) os) (pre ++ ds) g = old_slice os ds g.
Proof. exact shifted_slices. Qed.

(* loca decode o encode = id for both widths: a font whose loca is the encoding of offsets that are
   non-negative, representable in the head format's width and multiples of its divisor reads back exactly
   those offsets (the exact-boundary hypothesis is off_good: w / div + bias < 2^(8 width), i.e. short: w <= 131070) *)
Theorem c18_loca_roundtrip : forall (F : font) (h : bytes) fmt T os,
  lookup F T_head = Some h -> 54 <= len h -> uN_at 2 h 50 = Some fmt ->
  T = (if fmt =? 1 then ot_long else ot_short) ->
  lookup F T_loca = Some (encode_offsets T os) -> Forall (off_good T) os ->
  read_loca F = Some (T, os).
Proof. exact read_loca_rebuilt. Qed.


Print Assumptions c18_table_keyed_exact.
Print Assumptions c18_incompatible_before_any_decode.
Print Assumptions c18_glyph_keyed_exact.
Print Assumptions c18_first_patch_wins.
Print Assumptions c18_offsets_ascending.
Print Assumptions c18_offset_type_widens_only_when_needed.
Print Assumptions c18_glyf_loca_are_the_builder_output.
Print Assumptions c18_gvar_is_the_builder_output.
Print Assumptions c18_run_loop_is_glyph_loop.
Print Assumptions c18_replace_ignores_base.
Print Assumptions c18_diff_uses_base.
Print Assumptions c18_other_tables_identical.
Print Assumptions c18_applied_bit_update_exact.
Print Assumptions c18_applied_bits_order_independent.
Print Assumptions c18_applied_bits_exact.
Print Assumptions c18_error_leaves_bookkeeping.
Print Assumptions c18_success_flips_exactly_applied.
Print Assumptions c18_order_independent.
Print Assumptions c18_grouping_independent.
Print Assumptions c18_partition_independent.
Print Assumptions c18_any_partition_same_font.
Print Assumptions c18_statuses_partition.
Print Assumptions c18_statuses_order_independent.
Print Assumptions c18_short_loca_overflow_is_error.
Print Assumptions c18_failing_glyf_branch_fails_everything.
Print Assumptions c18_loca_width_matches_head.
Print Assumptions c18_cff_is_the_builder_output.
Print Assumptions c18_glyph_keyed_exact_partial_check.
Print Assumptions c18_width_order_independent_growth_only.
Print Assumptions c18_glyph_patches_decode_encode.
Print Assumptions c18_run_loop_complete.
Print Assumptions c18_build_runs_eq_build_loop.
Print Assumptions c18_patch_offset_array_is_spec.
Print Assumptions c18_offset_array_grouping.
Print Assumptions c18_gvar_data_placement_slices.
Print Assumptions c18_loca_roundtrip.
