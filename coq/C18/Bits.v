(* C18 — closed form of the applied-bit marking for a whole set of patches *)
From Coq Require Import ZArith List Bool Lia.
From FV Require Import Lib.RustInt C18.Model C18.GkProofs C18.Runs C18.GkProofs2.
Import ListNotations.
Open Scope Z_scope.

Definition side (c : bool) (st : option bytes * option bytes) : option bytes := if c then fst st else snd st.
(* does patch [i] address bit j of byte k of the table on side c (true = IFT, false = IFTX) *)
Definition hits1 (c : bool) (k : nat) (j : Z) (i : pinfo) : bool :=
  Bool.eqb (pi_tbl i =? 0) c && (pi_bit i / 8 =? Z.of_nat k) && (pi_bit i mod 8 =? j).

Lemma mark_applied_spec st i st1 c : mark_applied st i = inr st1 -> 0 <= pi_bit i ->
  (side c st = None -> side c st1 = None) /\
  (forall d, side c st = Some d -> exists d1, side c st1 = Some d1 /\ length d1 = length d /\
     forall k x, nth_error d k = Some x -> exists x1, nth_error d1 k = Some x1 /\
       forall j, 0 <= j -> Z.testbit x1 j = Z.testbit x j || hits1 c k j i).
Proof.
  intros H Hb. destruct st as [a b]. unfold mark_applied in H. unfold hits1.
  assert (Same : forall d, exists d1, Some d = Some d1 /\ length d1 = length d /\
     forall k x, nth_error d k = Some x -> exists x1, nth_error d1 k = Some x1 /\
       forall j, 0 <= j -> Z.testbit x1 j = Z.testbit x j || false).
  { intros d. exists d. repeat split; auto. intros k x Hx. exists x. split; auto. intros. now rewrite orb_false_r. }
  assert (Upd : forall d d1, set_bit d (Z.to_nat (pi_bit i / 8)) (pi_bit i mod 8) = Some d1 ->
     length d1 = length d /\
     forall k x, nth_error d k = Some x -> exists x1, nth_error d1 k = Some x1 /\
       forall j, 0 <= j -> Z.testbit x1 j = Z.testbit x j || ((pi_bit i / 8 =? Z.of_nat k) && (pi_bit i mod 8 =? j))).
  { intros d d1 S. destruct (set_bit_spec _ _ _ _ S) as [L N]. split; [exact L|].
    intros k x Hx. rewrite N, Hx. destruct (Nat.eqb_spec k (Z.to_nat (pi_bit i / 8))).
    - cbn. eexists; split; [reflexivity|]. intros j Hj.
      assert (0 <= pi_bit i mod 8 < 8) by (apply Z.mod_pos_bound; lia).
      rewrite testbit_or_mask by lia. f_equal.
      assert (E : pi_bit i / 8 = Z.of_nat k) by (subst k; rewrite Z2Nat.id; [reflexivity | apply Z.div_pos; lia]).
      rewrite E, Z.eqb_refl. cbn. apply Z.eqb_sym.
    - exists x. split; [reflexivity|]. intros j Hj.
      destruct (Z.eqb_spec (pi_bit i / 8) (Z.of_nat k)) as [E|E]; [|cbn; now rewrite orb_false_r].
      exfalso. apply n. rewrite E. now rewrite Nat2Z.id. }
  destruct (pi_tbl i =? 0) eqn:T.
  - destruct a as [d|]; cbn in H; [|discriminate].
    destruct (set_bit d _ _) as [d1|] eqn:S; cbn in H; [|discriminate]. inversion H; subst st1.
    destruct c; cbn [side fst snd Bool.eqb].
    + split; [discriminate|]. intros d0 E; inversion E; subst d0. exists d1. split; [reflexivity|].
      destruct (Upd _ _ S) as [L N]. split; [exact L|]. intros k x Hx. destruct (N k x Hx) as [x1 [A B]].
      exists x1. split; [exact A|]. intros j Hj. rewrite (B j Hj). reflexivity.
    + split; [auto|]. intros d0 ->. apply Same.
  - destruct b as [d|]; cbn in H; [|discriminate].
    destruct (set_bit d _ _) as [d1|] eqn:S; cbn in H; [|discriminate]. inversion H; subst st1.
    destruct c; cbn [side fst snd Bool.eqb].
    + split; [auto|]. intros d0 ->. apply Same.
    + split; [discriminate|]. intros d0 E; inversion E; subst d0. exists d1. split; [reflexivity|].
      destruct (Upd _ _ S) as [L N]. split; [exact L|]. intros k x Hx. destruct (N k x Hx) as [x1 [A B]].
      exists x1. split; [exact A|]. intros j Hj. rewrite (B j Hj). reflexivity.
Qed.

(* exactly the applied bits are set: bit j of byte k of IFT (c = true) / IFTX (c = false) after marking
   = its old value OR "some applied patch of that table has application bit index 8k + j";
   lengths are unchanged and an absent table stays absent *)
Lemma mark_all_spec c : forall infos st st', mark_all st infos = inr st' ->
  Forall (fun i => 0 <= pi_bit i) infos ->
  (side c st = None -> side c st' = None) /\
  (forall d, side c st = Some d -> exists d', side c st' = Some d' /\ length d' = length d /\
     forall k x, nth_error d k = Some x -> exists x', nth_error d' k = Some x' /\
       forall j, 0 <= j -> Z.testbit x' j = Z.testbit x j || existsb (hits1 c k j) infos).
Proof.
  induction infos as [|i r IH]; intros st st' H Hnn.
  - cbn in H. inversion H; subst. split; [auto|]. intros d Hd. exists d. repeat split; auto.
    intros k x Hx. exists x. split; auto. intros. cbn. now rewrite orb_false_r.
  - cbn [mark_all] in H. destruct (mark_applied st i) as [?|st1] eqn:M; cbn [bind] in H; [discriminate|].
    inversion Hnn as [|? ? Hi Hr]; subst.
    destruct (mark_applied_spec _ _ _ c M Hi) as [N1 S1]. destruct (IH _ _ H Hr) as [N2 S2]. split.
    + intros E. apply N2, N1, E.
    + intros d Hd. destruct (S1 _ Hd) as [d1 [E1 [L1 P1]]]. destruct (S2 _ E1) as [d' [E2 [L2 P2]]].
      exists d'. split; [exact E2|]. split; [congruence|]. intros k x Hx.
      destruct (P1 _ _ Hx) as [x1 [A1 B1]]. destruct (P2 _ _ A1) as [x' [A2 B2]].
      exists x'. split; [exact A2|]. intros j Hj. rewrite (B2 j Hj), (B1 j Hj). cbn [existsb].
      now rewrite orb_assoc.
Qed.
