(* C18 — grouping independence: one call with ps1 ++ ps2 = two calls (ps1, then ps2 on the result),
   for glyph keyed patches on glyf/loca that agree on shared glyphs *)
From Coq Require Import ZArith List Bool Lia Permutation.
From FV Require Import Lib.RustInt C18.Model C18.GkProofs C18.Runs C18.GkProofs2.
Import ListNotations.
Open Scope Z_scope.
Ltac Zify.zify_post_hook ::= Z.div_mod_to_equations.

(* ---------- fonts as sorted maps ---------- *)
Lemma fb_add_keys t d f : forall x, In x (map fst (fb_add t d f)) -> x = t \/ In x (map fst f).
Proof.
  induction f as [|[t' d'] r IH]; intros x H; cbn in *.
  - destruct H; [now left | contradiction].
  - destruct (t <? t'); [cbn in H; destruct H; auto|].
    destruct (t =? t') eqn:E; [apply Z.eqb_eq in E; subst; cbn in H; destruct H; auto|].
    cbn in H. destruct H; [auto|]. apply IH in H. destruct H; auto.
Qed.

Lemma fb_add_ok t d f : gm_ok f -> gm_ok (fb_add t d f).
Proof.
  induction 1 as [|t' d' r Hall Hok IH]; cbn.
  - constructor; constructor.
  - destruct (Z.ltb_spec t t').
    + constructor; [|constructor; assumption].
      constructor; [cbn; lia|]. eapply Forall_impl; [|exact Hall]. cbn; intros; lia.
    + destruct (Z.eqb_spec t t'); [subst; constructor; assumption|].
      constructor; [|exact IH].
      apply Forall_forall. intros [x dx] Hin.
      assert (Hk : In x (map fst (fb_add t d r))) by (apply in_map_iff; exists (x, dx); auto).
      apply fb_add_keys in Hk. cbn. destruct Hk as [->|Hk]; [lia|].
      apply in_map_iff in Hk. destruct Hk as [[y dy] [<- Hy]].
      rewrite Forall_forall in Hall. apply (Hall _ Hy).
Qed.

Lemma fold_add_ok (adds : list (Z * bytes)) : forall fb, gm_ok fb ->
  gm_ok (fold_left (fun acc td => fb_add (fst td) (snd td) acc) adds fb).
Proof. induction adds as [|[t d] r IH]; intros fb H; [exact H|]. cbn. apply IH. now apply fb_add_ok. Qed.

Lemma copy_unprocessed_ok f processed : forall fb, gm_ok fb -> gm_ok (copy_unprocessed f processed fb).
Proof.
  unfold copy_unprocessed. induction f as [|[t d] r IH]; intros fb H; [exact H|]. cbn [fold_left fst snd].
  apply IH. destruct (memZ t processed); [exact H | now apply fb_add_ok].
Qed.

Lemma run_handlers_ok hs : forall f views maxgid p fb p' fb', gm_ok fb ->
  run_handlers hs f views maxgid p fb = inr (p', fb') -> gm_ok fb'.
Proof.
  induction hs as [|[t h] hs IH]; intros f views maxgid p fb p' fb' Hok H.
  - cbn in H. inversion H; subst. exact Hok.
  - cbn [run_handlers] in H. destruct (lists_tag views t); [|eapply IH; eauto].
    destruct (h f views maxgid) as [?|adds]; cbn [bind] in H; [discriminate|].
    eapply IH; [|exact H]. now apply fold_add_ok.
Qed.

Lemma gk_core_ok f infos views F : gk_core f infos views = inr F -> gm_ok F.
Proof.
  unfold gk_core. destruct (lookup f T_maxp) as [mx|]; [|discriminate].
  destruct (uN_at 2 mx 4) as [ng|]; [|discriminate]. cbn [bind].
  destruct (ng =? 0); [discriminate|]. destruct (forallb _ views); cbn [negb]; [|discriminate].
  destruct (run_handlers _ _ _ _ _ _) as [?|[p fb]] eqn:R; cbn [bind]; [discriminate|].
  destruct (mark_all _ infos) as [?|[a b]]; cbn [bind]; [discriminate|].
  intros H; inversion H. apply copy_unprocessed_ok.
  pose proof (run_handlers_ok _ _ _ _ _ _ _ _ gm_ok_nil R) as K.
  destruct b; destruct a; repeat apply fb_add_ok; exact K.
Qed.

Lemma gm_ok_nodup (f : gmap) : gm_ok f -> NoDup (map fst f).
Proof.
  induction 1 as [|t d r Hall Hok IH]; cbn; constructor; [|exact IH].
  intros Hin. apply in_map_iff in Hin. destruct Hin as [[y dy] [E Hy]]. cbn in E. subst.
  rewrite Forall_forall in Hall. specialize (Hall _ Hy). cbn in Hall. lia.
Qed.

(* ---------- app lemmas ---------- *)
Lemma mapM_app {A B} (f : A -> res B) l1 l2 ys : mapM f (l1 ++ l2) = inr ys ->
  exists y1 y2, mapM f l1 = inr y1 /\ mapM f l2 = inr y2 /\ ys = y1 ++ y2.
Proof.
  revert ys. induction l1 as [|x r IH]; intros ys H.
  - exists [], ys. cbn in *. auto.
  - cbn [app] in H. apply mapM_cons_inv in H. destruct H as [y [ys0 [Fx [M ->]]]].
    destruct (IH _ M) as [y1 [y2 [M1 [M2 ->]]]]. exists (y :: y1), y2.
    split; [now apply mapM_cons_intro|]. auto.
Qed.
Lemma mapM_app_intro {A B} (f : A -> res B) l1 l2 y1 y2 : mapM f l1 = inr y1 -> mapM f l2 = inr y2 ->
  mapM f (l1 ++ l2) = inr (y1 ++ y2).
Proof.
  revert y1. induction l1 as [|x r IH]; intros y1 H1 H2.
  - cbn in H1. inversion H1; subst. exact H2.
  - apply mapM_cons_inv in H1. destruct H1 as [y [ys0 [Fx [M ->]]]]. cbn [app].
    apply mapM_cons_intro; [exact Fx|]. now apply IH.
Qed.

Lemma mark_all_app i1 : forall st i2, mark_all st (i1 ++ i2) = (let? s := mark_all st i1 in mark_all s i2).
Proof.
  induction i1 as [|i r IH]; intros st i2; [reflexivity|]. cbn [app mark_all].
  destruct (mark_applied st i); cbn [bind]; [reflexivity | apply IH].
Qed.

Lemma first_data_app a b g : first_data (a ++ b) g = match first_data a g with Some d => Some d | None => first_data b g end.
Proof.
  induction a as [|[g' d] r IH]; [reflexivity|]. cbn. destruct (g =? g'); [reflexivity | exact IH].
Qed.

(* dedup of a concatenation: first group wins, then the second *)
Lemma dedup_app v1 v2 t m12 : dedup (v1 ++ v2) t = inr m12 ->
  exists m1 m2 it1 it2, dedup v1 t = inr m1 /\ dedup v2 t = inr m2 /\
    mapM (fun v => gp_items v t) v1 = inr it1 /\ mapM (fun v => gp_items v t) v2 = inr it2 /\
    mapM (fun v => gp_items v t) (v1 ++ v2) = inr (it1 ++ it2) /\
    (forall g, lookup m1 g = first_data (concat it1) g) /\ (forall g, lookup m2 g = first_data (concat it2) g) /\
    forall g, lookup m12 g = match lookup m1 g with Some d => Some d | None => lookup m2 g end.
Proof.
  intros H. apply dedup_inv in H. destruct H as [items [M ->]].
  destruct (mapM_app _ _ _ _ M) as [it1 [it2 [M1 [M2 ->]]]].
  exists (gm_insert_all (concat it1) []), (gm_insert_all (concat it2) []), it1, it2.
  unfold dedup. rewrite M1, M2. cbn [bind]. repeat split; auto.
  - intros g. now rewrite gm_insert_all_lookup by constructor.
  - intros g. now rewrite gm_insert_all_lookup by constructor.
  - intros g. rewrite !gm_insert_all_lookup by constructor. cbn [lookup]. rewrite concat_app. apply first_data_app.
Qed.

Lemma find_index_none t l : forall i, memZ t l = false -> find_index t l i = None.
Proof.
  induction l as [|x r IH]; intros i H; [reflexivity|]. cbn in *.
  rewrite Z.eqb_sym. destruct (t =? x); [discriminate|]. apply IH. exact H.
Qed.

Lemma items_nil_when_unlisted vs t : lists_tag vs t = false ->
  mapM (fun v => gp_items v t) vs = inr (map (fun _ => []) vs).
Proof.
  unfold lists_tag. induction vs as [|v r IH]; intros H; [reflexivity|]. cbn [existsb] in H.
  apply orb_false_elim in H. destruct H as [H1 H2]. cbn [map]. apply mapM_cons_intro; [|now apply IH].
  unfold gp_items. now rewrite find_index_none.
Qed.
Lemma concat_nils {A B} (l : list B) : concat (map (fun _ => @nil A) l) = [].
Proof. induction l; cbn; auto. Qed.

Lemma dedup_unlisted_l va vb t : lists_tag va t = false -> dedup (va ++ vb) t = dedup vb t.
Proof.
  intros H. unfold dedup. pose proof (items_nil_when_unlisted _ _ H) as Ma.
  destruct (mapM (fun v => gp_items v t) vb) as [e|itb] eqn:Mb.
  - destruct (mapM (fun v => gp_items v t) (va ++ vb)) as [e'|its] eqn:M; cbn [bind].
    + (* both errors: same first error *)
      clear - Ma Mb M. revert M. induction va as [|a r IH]; intros M; cbn [app] in M.
      * rewrite Mb in M. now inversion M.
      * cbn [map] in Ma. apply mapM_cons_inv in Ma. destruct Ma as [y [ys [Fa [Mr E]]]].
        cbn [mapM] in M. rewrite Fa in M. cbn [bind] in M.
        destruct (mapM (fun v => gp_items v t) (r ++ vb)) eqn:M'; cbn [bind] in M; [|discriminate].
        inversion M; subst. apply IH; [|reflexivity]. inversion E; subst. exact Mr.
    + destruct (mapM_app _ _ _ _ M) as [y1 [y2 [_ [M2 _]]]]. congruence.
  - rewrite (mapM_app_intro _ _ _ _ _ Ma Mb). cbn [bind]. now rewrite concat_app, concat_nils.
Qed.
Lemma dedup_unlisted_r va vb t : lists_tag vb t = false -> forall m, dedup (va ++ vb) t = inr m -> dedup va t = inr m.
Proof.
  intros H m D. pose proof (items_nil_when_unlisted _ _ H) as Mb.
  apply dedup_inv in D. destruct D as [items [M ->]].
  destruct (mapM_app _ _ _ _ M) as [y1 [y2 [M1 [M2 ->]]]]. rewrite Mb in M2. inversion M2; subst.
  unfold dedup. rewrite M1. cbn [bind]. now rewrite concat_app, concat_nils, app_nil_r.
Qed.

(* ---------- non-negative glyph ids ---------- *)
Definition gids_nonneg (vs : list gp) : Prop := Forall (fun v => Forall (fun g => 0 <= g) (gp_gids v)) vs.

Lemma gp_items_loop_keys raw : forall gids offs prev its, gp_items_loop raw gids offs prev = inr its ->
  forall g, In g (map fst its) -> In g gids.
Proof.
  induction gids as [|g0 gr IH]; intros offs prev its H g Hg.
  - cbn in H. inversion H; subst. contradiction.
  - cbn [gp_items_loop] in H. destruct offs as [|s [|e or]]; try (inversion H; subst; contradiction).
    destruct (match prev with Some p => g0 <=? p | None => false end); [discriminate|].
    destruct (e <? s); [discriminate|]. destruct (s =? 0); [discriminate|].
    destruct (slice raw s (s + (e - s))); [|discriminate].
    destruct (gp_items_loop raw gr (e :: or) (Some g0)) as [?|rest] eqn:R; cbn [bind] in H; [discriminate|].
    inversion H; subst. cbn in Hg. destruct Hg as [<-|Hg]; [now left|]. right. eapply IH; eauto.
Qed.

Lemma gm_insert_all_keys items : forall m x, In x (map fst (gm_insert_all items m)) -> In x (map fst items) \/ In x (map fst m).
Proof.
  unfold gm_insert_all. induction items as [|[g d] r IH]; intros m x H; [now right|]. cbn [fold_left fst snd] in H.
  apply IH in H. destruct H as [H|H]; [left; now right|].
  apply gm_insert_keys in H. destruct H as [->|H]; [left; now left | now right].
Qed.

Lemma dedup_nonneg vs t m : gids_nonneg vs -> dedup vs t = inr m -> Forall (fun gd => 0 <= fst gd) m.
Proof.
  intros Hnn D. apply dedup_inv in D. destruct D as [items [M ->]].
  apply Forall_forall. intros [g d] Hin.
  assert (Hk : In g (map fst (gm_insert_all (concat items) []))) by (apply in_map_iff; exists (g, d); auto).
  apply gm_insert_all_keys in Hk. destruct Hk as [Hk|[]]. cbn.
  apply in_map_iff in Hk. destruct Hk as [[g' d'] [E Hc]]. cbn in E. subst g'.
  apply in_concat in Hc. destruct Hc as [its [Hits Hgd]].
  clear - Hnn M Hits Hgd. revert items M Hits. induction vs as [|v r IH]; intros items M Hits.
  - cbn in M. inversion M; subst. contradiction.
  - apply mapM_cons_inv in M. destruct M as [y [ys [Fv [Mr ->]]]]. inversion Hnn; subst.
    destruct Hits as [<-|Hits]; [|eapply IH; eauto].
    unfold gp_items in Fv. destruct (find_index t (gp_tables v) 0); [|inversion Fv; subst; contradiction].
    assert (In g (gp_gids v)).
    { eapply gp_items_loop_keys; [exact Fv|]. apply in_map_iff. eexists; split; [|exact Hgd]. reflexivity. }
    rewrite Forall_forall in H1. now apply H1.
Qed.

(* ---------- decoding the rebuilt loca gives the builder's offsets back ---------- *)
Lemma chunks_concat_to_be w : forall vals, Forall (fun v => 0 <= v < 256 ^ Z.of_nat w) vals ->
  chunks w (length vals) (concat (map (to_be w) vals)) = vals.
Proof.
  induction vals as [|v r IH]; intros H; [reflexivity|]. inversion H; subst. cbn [length map concat chunks].
  rewrite firstn_app, to_be_length, Nat.sub_diag, firstn_all2 by (rewrite to_be_length; lia). cbn [firstn].
  rewrite app_nil_r, from_to_be by assumption.
  rewrite skipn_app, to_be_length, Nat.sub_diag, skipn_all2 by (rewrite to_be_length; lia). cbn [skipn app].
  now rewrite IH.
Qed.
Lemma len_concat_to_be w vals : len (concat (map (to_be w) vals)) = Z.of_nat w * len vals.
Proof.
  induction vals as [|v r IH]; [cbn; lia|]. cbn [map concat]. rewrite len_app, IH, len_cons.
  unfold len at 1. rewrite to_be_length. lia.
Qed.

Definition off_good (T : otype) (w : Z) : Prop := 0 <= w /\ off_fits T w = true /\ w mod ot_div T = 0.

Lemma read_loca_rebuilt (F : font) (h : bytes) fmt T os :
  lookup F T_head = Some h -> 54 <= len h -> uN_at 2 h 50 = Some fmt ->
  T = (if fmt =? 1 then ot_long else ot_short) ->
  lookup F T_loca = Some (encode_offsets T os) -> Forall (off_good T) os ->
  read_loca F = Some (T, os).
Proof.
  intros Hh Hl Hf -> Hloca Hg. unfold read_loca. rewrite Hh, Hloca.
  destruct (Z.ltb_spec (len h) 54); [lia|]. rewrite Hf. unfold encode_offsets.
  destruct (fmt =? 1).
  - cbn [ot_long ot_width ot_div ot_bias].
    replace (map (fun w => to_be (Z.to_nat 4) (w / 1 + 0)) os) with (map (to_be 4) os)
      by (apply map_ext; intros; f_equal; lia).
    rewrite len_concat_to_be. replace (Z.of_nat 4 * len os mod 4) with 0 by lia. cbn [Z.eqb].
    replace (Z.to_nat (Z.of_nat 4 * len os / 4)) with (length os) by (unfold len; lia).
    rewrite chunks_concat_to_be; [reflexivity|].
    eapply Forall_impl; [|exact Hg]. intros w [H0 [H1 _]]. unfold off_fits in H1. cbn in H1.
    apply Z.ltb_lt in H1. cbn. lia.
  - cbn [ot_short ot_width ot_div ot_bias].
    replace (map (fun w => to_be (Z.to_nat 2) (w / 2 + 0)) os) with (map (to_be 2) (map (fun w => w / 2) os))
      by (rewrite map_map; apply map_ext; intros; f_equal; lia).
    rewrite len_concat_to_be. replace (Z.of_nat 2 * len (map (fun w => w / 2) os) mod 2) with 0 by lia. cbn [Z.eqb].
    replace (Z.to_nat (Z.of_nat 2 * len (map (fun w => w / 2) os) / 2)) with (length (map (fun w => w / 2) os))
      by (unfold len; lia).
    rewrite chunks_concat_to_be.
    + rewrite map_map. do 2 f_equal. rewrite <- (map_id os) at 2. apply map_ext_in. intros w Hw.
      rewrite Forall_forall in Hg. destruct (Hg w Hw) as [_ [_ H2]]. cbn in H2. lia.
    + apply Forall_forall. intros v Hv. apply in_map_iff in Hv. destruct Hv as [w [<- Hw]].
      rewrite Forall_forall in Hg. destruct (Hg w Hw) as [H0 [H1 _]]. unfold off_fits in H1. cbn in H1.
      apply Z.ltb_lt in H1. cbn. lia.
Qed.

Lemma read_loca_inv f T offs : read_loca f = Some (T, offs) ->
  exists h fmt, lookup f T_head = Some h /\ 54 <= len h /\ uN_at 2 h 50 = Some fmt /\
    T = (if fmt =? 1 then ot_long else ot_short) /\ Forall (fun o => o mod ot_div T = 0) offs.
Proof.
  unfold read_loca. destruct (lookup f T_head) as [h|] eqn:Lh; [|discriminate].
  destruct (lookup f T_loca) as [l|]; [|discriminate].
  destruct (Z.ltb_spec (len h) 54); [discriminate|].
  destruct (uN_at 2 h 50) as [fmt|] eqn:Uf; [|discriminate].
  destruct (fmt =? 1) eqn:E.
  - destruct (len l mod 4 =? 0); [|discriminate]. intros HH; inversion HH; subst.
    exists h, fmt. rewrite E. split; [reflexivity|]. split; [assumption|]. split; [exact Uf|]. split; [reflexivity|].
    apply Forall_forall. intros; cbn; lia.
  - destruct (len l mod 2 =? 0); [|discriminate]. intros HH; inversion HH; subst.
    exists h, fmt. rewrite E. split; [reflexivity|]. split; [assumption|]. split; [exact Uf|]. split; [reflexivity|].
    apply Forall_forall. intros o Ho.
    apply in_map_iff in Ho. destruct Ho as [x [<- _]]. cbn. lia.
Qed.

Lemma patch_glyf_inv_adds f views maxgid adds : patch_glyf f views maxgid = inr adds ->
  exists ds enc, adds = [(T_glyf, ds); (T_loca, enc)].
Proof.
  unfold patch_glyf. destruct (lookup f T_glyf); [|discriminate]. destruct (read_loca f) as [[T offs]|]; [|discriminate].
  destruct (patch_offset_array _ _ _ _ _ _ _ _) as [?|[[T' os] ds]]; cbn [bind]; [discriminate|].
  destruct (otype_eqb T' T); cbn [negb]; [|discriminate]. intros H; inversion H. eauto.
Qed.

Definition glyf_only (views : list gp) : Prop :=
  lists_tag views T_gvar = false /\ lists_tag views T_CFF = false /\ lists_tag views T_CFF2 = false.

(* ---------- the shape of a successful glyph keyed application that does not touch gvar ---------- *)
Lemma gk_core_shape f infos views F : gm_ok f -> glyf_only views ->
  gk_core f infos views = inr F ->
  exists mx ng ift' iftx',
    lookup f T_maxp = Some mx /\ uN_at 2 mx 4 = Some ng /\ (ng =? 0) = false /\
    forallb (fun v => strictly_ascending (gp_tables v)) views = true /\
    lists_tag views T_CFF = false /\ lists_tag views T_CFF2 = false /\
    mark_all (lookup f T_IFT, lookup f T_IFTX) infos = inr (ift', iftx') /\
    lookup F T_IFT = ift' /\ lookup F T_IFTX = iftx' /\
    (if lists_tag views T_glyf
     then exists ds enc, patch_glyf f views (ng - 1) = inr [(T_glyf, ds); (T_loca, enc)] /\
                         lookup F T_glyf = Some ds /\ lookup F T_loca = Some enc
     else lookup F T_glyf = lookup f T_glyf /\ lookup F T_loca = lookup f T_loca).
Proof.
  intros Hf [Hgv [C1 C2]] H. pose proof (gm_ok_nodup _ Hf) as ND. unfold gk_core in H.
  destruct (lookup f T_maxp) as [mx|] eqn:Lm; [|discriminate].
  destruct (uN_at 2 mx 4) as [ng|] eqn:Un; [|discriminate]. cbn [bind] in H.
  destruct (ng =? 0) eqn:Ng; [discriminate|].
  destruct (forallb _ views) eqn:Fa; cbn [negb] in H; [|discriminate].
  unfold handlers in H. cbn [run_handlers] in H. rewrite Hgv, C1, C2 in H.
  exists mx, ng.
  destruct (lists_tag views T_glyf) eqn:G.
  - destruct (patch_glyf f views (ng - 1)) as [?|adds] eqn:PG; cbn [bind] in H; [discriminate|].
    destruct (patch_glyf_inv_adds _ _ _ _ PG) as [ds [enc ->]].
    cbn [map fst fold_left snd app bind] in H.
    destruct (mark_all _ infos) as [?|[ift' iftx']] eqn:MA; cbn [bind] in H; [discriminate|].
    exists ift', iftx'. inversion H; subst F. repeat (split; [solve [auto]|]).
    rewrite !lookup_copy_unprocessed by assumption.
    change (memZ T_IFT [T_glyf; T_loca; T_IFT; T_IFTX]) with true.
    change (memZ T_IFTX [T_glyf; T_loca; T_IFT; T_IFTX]) with true.
    change (memZ T_glyf [T_glyf; T_loca; T_IFT; T_IFTX]) with true.
    change (memZ T_loca [T_glyf; T_loca; T_IFT; T_IFTX]) with true. cbn iota.
    split; [|split; [|exists ds, enc; split; [reflexivity|]]];
      destruct iftx'; destruct ift'; rewrite ?lookup_fb_add; cbn; try reflexivity; auto.
  - cbn [bind] in H.
    destruct (mark_all _ infos) as [?|[ift' iftx']] eqn:MA; cbn [bind] in H; [discriminate|].
    exists ift', iftx'. inversion H; subst F. repeat (split; [solve [auto]|]).
    rewrite !lookup_copy_unprocessed by assumption.
    change (memZ T_IFT [T_IFT; T_IFTX]) with true. change (memZ T_IFTX [T_IFT; T_IFTX]) with true.
    change (memZ T_glyf [T_IFT; T_IFTX]) with false. change (memZ T_loca [T_IFT; T_IFTX]) with false. cbn iota.
    split; [|split; [|split]];
      destruct iftx'; destruct ift'; rewrite ?lookup_fb_add; cbn;
      try reflexivity; try (destruct (lookup f T_glyf); reflexivity); try (destruct (lookup f T_loca); reflexivity).
Qed.

(* ---------- the builder's offsets are representable multiples of the divisor ---------- *)
Lemma slice_len b s e r : slice b s e = Some r -> len r = e - s.
Proof.
  intros H. apply slice_inv in H. destruct H as [H0 [H1 [H2 ->]]].
  unfold len in *. rewrite firstn_length, skipn_length. lia.
Qed.

Lemma psums_mod k : 0 < k -> forall sls w, Forall (fun s : bytes => len s mod k = 0) sls -> w mod k = 0 ->
  Forall (fun o => o mod k = 0) (psums w sls).
Proof.
  intros Hk. induction sls as [|s r IH]; intros w H Hw; cbn [psums]; [repeat constructor; exact Hw|].
  inversion H; subst. constructor; [exact Hw|]. apply IH; [assumption|].
  rewrite Z.add_mod by lia. rewrite Hw, H2. cbn. first [reflexivity | apply Z.mod_0_l; lia].
Qed.

Lemma build_good n (m : gmap) offs data T e_off os ds :
  build_loop n 0 m offs data T e_off 0 = inr (os, ds) ->
  gm_ok m -> Forall (fun gd => 0 <= fst gd) m -> (T = ot_short \/ T = ot_long) ->
  Forall (fun o => o mod ot_div T = 0) offs -> Forall (off_good T) os.
Proof.
  intros B Hok Hnn HT Hoffs.
  pose proof (build_loop_fits _ _ _ _ _ _ _ _ _ _ B) as Fit.
  destruct (build_loop_spec _ _ _ _ _ _ _ _ _ _ B Hok Hnn) as [sls [L [-> [-> P]]]].
  assert (Hlen : Forall (fun s : bytes => len s mod ot_div T = 0) sls).
  { apply Forall_forall. intros s Hs. apply In_nth_error in Hs. destruct Hs as [i Hi].
    specialize (P _ _ Hi). unfold new_slice in P.
    destruct (lookup m (0 + Z.of_nat i)) as [d|].
    - inversion P; subst. unfold padded. rewrite len_app.
      assert (Hr : len (repeat 0 (Z.to_nat (padding T (len d)))) = Z.of_nat (Z.to_nat (padding T (len d))))
        by (unfold len; now rewrite repeat_length).
      rewrite Hr. pose proof (len_nonneg d). unfold padding.
      destruct HT as [-> | ->]; cbn; lia.
    - unfold old_slice in P.
      destruct (nthZ offs (0 + Z.of_nat i)) as [a|] eqn:Ea; [|discriminate].
      destruct (nthZ offs (0 + Z.of_nat i + 1)) as [b|] eqn:Eb; [|discriminate].
      apply slice_len in P. rewrite P.
      rewrite nthZ_nth in Ea, Eb by lia. apply nth_error_In in Ea, Eb.
      rewrite Forall_forall in Hoffs. pose proof (Hoffs _ Ea). pose proof (Hoffs _ Eb).
      destruct HT as [-> | ->]; cbn in *; lia. }
  pose proof (psums_mod (ot_div T) ltac:(destruct HT as [-> | ->]; cbn; lia) sls 0 Hlen ltac:(destruct HT as [-> | ->]; reflexivity)) as Hmod.
  apply Forall_forall. intros o Ho. unfold off_good.
  rewrite Forall_forall in Fit, Hmod. repeat split; auto.
  apply In_nth_error in Ho. destruct Ho as [i Hi]. apply psums_ge in Hi. exact Hi.
Qed.

(* ---------- two stages = one stage ---------- *)
Lemma nth_error_ext_eq {A} (l1 l2 : list A) : length l1 = length l2 ->
  (forall i x y, nth_error l1 i = Some x -> nth_error l2 i = Some y -> x = y) -> l1 = l2.
Proof.
  revert l2. induction l1 as [|a r IH]; intros [|b r2] HL H; cbn in HL; try lia; [reflexivity|].
  f_equal; [apply (H 0%nat); reflexivity|]. apply IH; [lia|]. intros i x y Hx Hy. apply (H (S i)); assumption.
Qed.

Lemma two_stage n (m1 m2 m12 : gmap) offs data T e_off os1 ds1 os2 ds2 os12 ds12 :
  build_loop n 0 m1 offs data T e_off 0 = inr (os1, ds1) ->
  build_loop n 0 m2 os1 ds1 T e_off 0 = inr (os2, ds2) ->
  build_loop n 0 m12 offs data T e_off 0 = inr (os12, ds12) ->
  gm_ok m1 -> gm_ok m2 -> gm_ok m12 ->
  Forall (fun gd => 0 <= fst gd) m1 -> Forall (fun gd => 0 <= fst gd) m2 -> Forall (fun gd => 0 <= fst gd) m12 ->
  (forall g, lookup m12 g = match lookup m1 g with Some d => Some d | None => lookup m2 g end) ->
  (forall g d1 d2, lookup m1 g = Some d1 -> lookup m2 g = Some d2 -> d1 = d2) ->
  os2 = os12 /\ ds2 = ds12.
Proof.
  intros B1 B2 B12 O1 O2 O12 N1 N2 N12 Hm Hag.
  destruct (build_loop_spec _ _ _ _ _ _ _ _ _ _ B1 O1 N1) as [s1 [L1 [-> [-> P1]]]].
  destruct (build_loop_spec _ _ _ _ _ _ _ _ _ _ B2 O2 N2) as [s2 [L2 [-> [-> P2]]]].
  destruct (build_loop_spec _ _ _ _ _ _ _ _ _ _ B12 O12 N12) as [s12 [L12 [-> [-> P12]]]].
  assert (s2 = s12); [|subst; auto].
  apply nth_error_ext_eq; [congruence|]. intros i x y Hx Hy.
  pose proof (P2 _ _ Hx) as Q2. pose proof (P12 _ _ Hy) as Q12.
  unfold new_slice in Q2, Q12. rewrite Hm in Q12.
  destruct (lookup m2 (0 + Z.of_nat i)) as [d2|] eqn:E2.
  - destruct (lookup m1 (0 + Z.of_nat i)) as [d1|] eqn:E1.
    + rewrite (Hag _ _ _ E1 E2) in Q12. congruence.
    + congruence.
  - (* kept in the second stage: the slice produced by the first stage *)
    assert (Hi : (i < length s1)%nat).
    { rewrite L1, <- L2. apply nth_error_Some. congruence. }
    destruct (nth_error s1 i) as [z|] eqn:Ez; [|apply nth_error_None in Ez; lia].
    pose proof (P1 _ _ Ez) as Q1. unfold new_slice in Q1.
    assert (Hold : old_slice (psums 0 s1) (concat s1) (0 + Z.of_nat i) = Some z).
    { unfold old_slice. rewrite !nthZ_nth by lia.
      replace (Z.to_nat (0 + Z.of_nat i)) with i by lia. replace (Z.to_nat (0 + Z.of_nat i + 1)) with (S i) by lia.
      destruct (nth_error (psums 0 s1) i) as [a|] eqn:Ea;
        [|apply nth_error_None in Ea; rewrite psums_length in Ea; unfold bytes in *; lia].
      destruct (nth_error (psums 0 s1) (S i)) as [b|] eqn:Eb;
        [|apply nth_error_None in Eb; rewrite psums_length in Eb; unfold bytes in *; lia].
      pose proof (psums_slice s1 0 i a b z Ea Eb Ez) as Q. now rewrite !Z.sub_0_r in Q. }
    rewrite Hold in Q2. destruct (lookup m1 (0 + Z.of_nat i)); congruence.
Qed.

(* ---------- remaining tables when gvar is not touched ---------- *)
Lemma gk_core_rest f infos views F : gm_ok f -> glyf_only views ->
  gk_core f infos views = inr F ->
  forall x, x <> T_glyf -> x <> T_loca -> x <> T_IFT -> x <> T_IFTX -> lookup F x = lookup f x.
Proof.
  intros Hf [Hgv [C1 C2]] H x N1 N2 N3 N4. pose proof (gm_ok_nodup _ Hf) as ND. unfold gk_core in H.
  destruct (lookup f T_maxp) as [mx|]; [|discriminate].
  destruct (uN_at 2 mx 4) as [ng|]; [|discriminate]. cbn [bind] in H.
  destruct (ng =? 0); [discriminate|].
  destruct (forallb _ views); cbn [negb] in H; [|discriminate].
  unfold handlers in H. cbn [run_handlers] in H. rewrite Hgv, C1, C2 in H.
  assert (K : forall processed fb,
     (forall y, In y processed -> y = T_glyf \/ y = T_loca \/ y = T_IFT \/ y = T_IFTX) -> lookup fb x = None ->
     (let? (ift', iftx') := mark_all (lookup f T_IFT, lookup f T_IFTX) infos in
      let fb := match ift' with Some d => fb_add T_IFT d fb | None => fb end in
      let fb := match iftx' with Some d => fb_add T_IFTX d fb | None => fb end in
      inr (copy_unprocessed f processed fb)) = inr F -> lookup F x = lookup f x).
  { intros processed fb Hp Hfb K.
    destruct (mark_all _ infos) as [?|[ift' iftx']]; cbn [bind] in K; [discriminate|].
    inversion K; subst F. rewrite lookup_copy_unprocessed by assumption.
    destruct (memZ x processed) eqn:M.
    { apply memZ_true in M. apply Hp in M. destruct M as [E|[E|[E|E]]]; congruence. }
    destruct (lookup f x); [reflexivity|].
    destruct iftx'; destruct ift'; rewrite ?lookup_fb_add;
      repeat match goal with |- context [x =? ?t] => destruct (Z.eqb_spec x t); [congruence|] end; exact Hfb. }
  destruct (lists_tag views T_glyf).
  - destruct (patch_glyf f views (ng - 1)) as [?|adds] eqn:PG; cbn [bind] in H; [discriminate|].
    destruct (patch_glyf_inv_adds _ _ _ _ PG) as [ds [enc ->]]. cbn [map fst fold_left snd app] in H.
    eapply K; [| |exact H].
    + cbn. intros y [<-|[<-|[<-|[<-|[]]]]]; auto.
    + rewrite !lookup_fb_add. destruct (Z.eqb_spec x T_loca); [congruence|]. destruct (Z.eqb_spec x T_glyf); [congruence|]. reflexivity.
  - eapply K; [| |exact H].
    + cbn. intros y [<-|[<-|[]]]; auto.
    + reflexivity.
Qed.

Lemma lists_tag_app a b t : lists_tag (a ++ b) t = lists_tag a t || lists_tag b t.
Proof. unfold lists_tag. apply existsb_app. Qed.

Lemma poa_dedup_eq va vb t offs data T avail e_off maxgid : dedup va t = dedup vb t ->
  patch_offset_array va t offs data T avail e_off maxgid = patch_offset_array vb t offs data T avail e_off maxgid.
Proof. intros E. unfold patch_offset_array, patch_offset_array_gen. now rewrite E. Qed.

Lemma patch_glyf_dedup_eq f va vb maxgid : dedup va T_glyf = dedup vb T_glyf ->
  patch_glyf f va maxgid = patch_glyf f vb maxgid.
Proof.
  intros E. unfold patch_glyf. destruct (lookup f T_glyf); [|reflexivity]. destruct (read_loca f) as [[T offs]|]; [|reflexivity].
  now rewrite (poa_dedup_eq _ _ _ _ _ _ _ _ _ E).
Qed.

Lemma patch_glyf_font_ext (f g : font) views maxgid :
  lookup g T_glyf = lookup f T_glyf -> lookup g T_loca = lookup f T_loca -> lookup g T_head = lookup f T_head ->
  patch_glyf g views maxgid = patch_glyf f views maxgid.
Proof. intros E1 E2 E3. unfold patch_glyf, read_loca. now rewrite E1, E2, E3. Qed.

(* ---------- grouping independence ---------- *)
Theorem gk_core_grouping f i1 i2 v1 v2 F12 F1 F2 :
  gm_ok f -> gids_nonneg (v1 ++ v2) -> views_agree T_glyf (v1 ++ v2) ->
  (forall mx ng, lookup f T_maxp = Some mx -> uN_at 2 mx 4 = Some ng -> 0 <= ng) ->
  glyf_only (v1 ++ v2) ->
  gk_core f (i1 ++ i2) (v1 ++ v2) = inr F12 ->
  gk_core f i1 v1 = inr F1 -> gk_core F1 i2 v2 = inr F2 -> F2 = F12.
Proof.
  intros Hf Hnn Hag Hng Hgv H12 H1 H2.
  assert (Hg12 : glyf_only (v1 ++ v2)) by exact Hgv.
  assert (Hg1 : glyf_only v1 /\ glyf_only v2).
  { destruct Hgv as [A [B C]]. rewrite lists_tag_app in A, B, C.
    apply orb_false_elim in A, B, C. unfold glyf_only. tauto. }
  destruct Hg1 as [Hg1 Hg2].
  pose proof (gk_core_ok _ _ _ _ H1) as Ok1. pose proof (gk_core_ok _ _ _ _ H2) as Ok2.
  pose proof (gk_core_ok _ _ _ _ H12) as Ok12.
  assert (Hnn1 : gids_nonneg v1) by (unfold gids_nonneg in *; apply Forall_app in Hnn; tauto).
  assert (Hnn2 : gids_nonneg v2) by (unfold gids_nonneg in *; apply Forall_app in Hnn; tauto).
  destruct (gk_core_shape _ _ _ _ Hf Hg12 H12) as [mx [ng [a12 [b12 [Lm [Un [Ng [_ [_ [_ [MA12 [I12 [X12 G12]]]]]]]]]]]]].
  destruct (gk_core_shape _ _ _ _ Hf Hg1 H1) as [mx1 [ng1 [a1 [b1 [Lm1 [Un1 [_ [_ [_ [_ [MA1 [I1 [X1 G1]]]]]]]]]]]]].
  destruct (gk_core_shape _ _ _ _ Ok1 Hg2 H2) as [mx2 [ng2 [a2 [b2 [Lm2 [Un2 [_ [_ [_ [_ [MA2 [I2 [X2 G2]]]]]]]]]]]]].
  pose proof (gk_core_rest _ _ _ _ Hf Hg12 H12) as R12.
  pose proof (gk_core_rest _ _ _ _ Hf Hg1 H1) as R1.
  pose proof (gk_core_rest _ _ _ _ Ok1 Hg2 H2) as R2.
  (* numGlyphs is the same in all three applications *)
  rewrite Lm in Lm1. inversion Lm1; subst mx1. rewrite Un in Un1. inversion Un1; subst ng1.
  assert (Lm2' : lookup F1 T_maxp = lookup f T_maxp) by (apply R1; discriminate).
  rewrite Lm2', Lm in Lm2. inversion Lm2; subst mx2. rewrite Un in Un2. inversion Un2; subst ng2.
  assert (Hmg : 0 <= ng - 1) by (apply Z.eqb_neq in Ng; specialize (Hng _ _ Lm Un); lia).
  apply gm_ext; [exact Ok2 | exact Ok12 |]. intros x.
  destruct (Z.eq_dec x T_IFT) as [->|N3]; [|destruct (Z.eq_dec x T_IFTX) as [->|N4]].
  - rewrite I2, I12. rewrite I1, X1 in MA2. rewrite mark_all_app, MA1 in MA12. cbn [bind] in MA12. congruence.
  - rewrite X2, X12. rewrite I1, X1 in MA2. rewrite mark_all_app, MA1 in MA12. cbn [bind] in MA12. congruence.
  - destruct (Z.eq_dec x T_glyf) as [Eg|N1]; [|destruct (Z.eq_dec x T_loca) as [El|N2]];
      [| | rewrite R2, R1, R12 by assumption; reflexivity].
    all: rewrite lists_tag_app in G12.
    all: destruct (lists_tag v1 T_glyf) eqn:L1; destruct (lists_tag v2 T_glyf) eqn:L2; cbn [orb] in G12.
    all: try (destruct G12 as [ds12 [enc12 [P12 [Gg12 Gl12]]]]).
    all: try (destruct G1 as [ds1 [enc1 [P1 [Gg1 Gl1]]]]).
    all: try (destruct G2 as [ds2 [enc2 [P2 [Gg2 Gl2]]]]).
    all: try (destruct G12 as [Gg12 Gl12]); try (destruct G1 as [Gg1 Gl1]); try (destruct G2 as [Gg2 Gl2]).
    all: subst x.
    (* both groups patch glyf: the two-stage argument *)
    1, 5: (assert (TS : ds2 = ds12 /\ enc2 = enc12); [|destruct TS; congruence]).
    1, 2: (destruct (patch_glyf_inv _ _ _ _ P1) as [glyf [T [offs [os1 [ds1' [Lg [RL [PA1 E1]]]]]]]]; inversion E1; subst ds1' enc1;
           destruct (patch_glyf_inv _ _ _ _ P12) as [glyf' [T' [offs' [os12 [ds12' [Lg' [RL' [PA12 E12]]]]]]]]; inversion E12; subst ds12' enc12;
           rewrite Lg in Lg'; inversion Lg'; subst glyf'; rewrite RL in RL'; inversion RL'; subst T' offs';
           destruct (read_loca_inv _ _ _ RL) as [h [fmt [Lh [Hl [Uf [ET Hdiv]]]]]];
           assert (HT : T = ot_short \/ T = ot_long) by (rewrite ET; destruct (fmt =? 1); auto);
           destruct (poa_inv _ _ _ _ _ _ _ _ _ _ _ PA1 Hmg) as [m1 [tot1 [D1 [_ [_ [_ B1]]]]]];
           destruct (poa_inv _ _ _ _ _ _ _ _ _ _ _ PA12 Hmg) as [m12 [tot12 [D12 [_ [_ [_ B12]]]]]];
           specialize (B1 (dedup_nonneg _ _ _ Hnn1 D1)); specialize (B12 (dedup_nonneg _ _ _ Hnn D12));
           pose proof (build_good _ _ _ _ _ _ _ _ B1 (dedup_ok _ _ _ D1) (dedup_nonneg _ _ _ Hnn1 D1) HT Hdiv) as Good1;
           assert (RL1 : read_loca F1 = Some (T, os1))
             by (eapply (read_loca_rebuilt F1 h fmt); eauto; rewrite R1 by discriminate; exact Lh);
           destruct (patch_glyf_inv _ _ _ _ P2) as [glyf2 [T2 [offs2 [os2 [ds2' [Lg2 [RL2 [PA2 E2]]]]]]]]; inversion E2; subst ds2' enc2;
           rewrite Gg1 in Lg2; inversion Lg2; subst glyf2; rewrite RL1 in RL2; inversion RL2; subst T2 offs2;
           destruct (poa_inv _ _ _ _ _ _ _ _ _ _ _ PA2 Hmg) as [m2 [tot2 [D2 [_ [_ [_ B2]]]]]];
           specialize (B2 (dedup_nonneg _ _ _ Hnn2 D2));
           destruct (dedup_app _ _ _ _ D12) as [m1' [m2' [it1 [it2 [D1' [D2' [M1 [M2 [M12 [F1' [F2' Hm]]]]]]]]]]];
           rewrite D1 in D1'; inversion D1'; subst m1'; rewrite D2 in D2'; inversion D2'; subst m2';
           assert (Hagm : forall g d1 d2, lookup m1 g = Some d1 -> lookup m2 g = Some d2 -> d1 = d2)
             by (intros g d1 d2 A1 A2; rewrite F1' in A1; rewrite F2' in A2; apply first_data_in in A1, A2;
                 apply (Hag _ M12 g); rewrite concat_app; apply in_or_app; auto);
           destruct (two_stage _ _ _ _ _ _ _ _ _ _ _ _ _ _ B1 B2 B12 (dedup_ok _ _ _ D1) (dedup_ok _ _ _ D2) (dedup_ok _ _ _ D12)
                       (dedup_nonneg _ _ _ Hnn1 D1) (dedup_nonneg _ _ _ Hnn2 D2) (dedup_nonneg _ _ _ Hnn D12) Hm Hagm) as [-> ->];
           auto).
    (* only the first group patches glyf *)
    1, 4: (assert (E : patch_glyf f (v1 ++ v2) (ng - 1) = patch_glyf f v1 (ng - 1));
           [apply patch_glyf_dedup_eq; unfold patch_glyf in P12;
            destruct (lookup f T_glyf); [|discriminate]; destruct (read_loca f) as [[T offs]|]; [|discriminate];
            unfold patch_offset_array, patch_offset_array_gen in P12; destruct (dedup (v1 ++ v2) T_glyf) as [[? ?]|m] eqn:D; [discriminate|];
            now rewrite (dedup_unlisted_r _ _ _ L2 _ D)
           | rewrite E, P1 in P12; inversion P12; congruence]).
    (* only the second group patches glyf *)
    1, 3: (assert (E : patch_glyf f (v1 ++ v2) (ng - 1) = patch_glyf F1 v2 (ng - 1));
           [rewrite (patch_glyf_dedup_eq f (v1 ++ v2) v2) by (now apply dedup_unlisted_l);
            symmetry; apply patch_glyf_font_ext; [exact Gg1 | exact Gl1 | apply R1; discriminate]
           | rewrite E, P2 in P12; inversion P12; congruence]).
    (* neither *)
    all: congruence.
Qed.
