SPEC = dict(
    id="C10",
    bin="c10",
    coq_dir="C10",
    coq_targets=["C10/Proofs.vo", "C10/PointProofs.vo", "C10/IupProofs.vo", "C10/IupUnforced.vo", "C10/Examples.vo",
                 "C10/ApplyModel.vo", "C10/ApplyProofs.vo", "C10/ApplyExamples.vo",
                 "C10/IupApplyModel.vo", "C10/IupApplyProofs.vo", "C10/IupApplyOrder.vo", "C10/IupApplyExamples.vo"],
    props=["C10/Props.v", "C10/ApplyProps.v", "C10/IupApplyProps.v"],
    allowed_axioms=[],
    level_text=("Unbounded Coq theorems about an executable model of the glyph-variation codecs and of the IUP optimiser's "
                "structure: PackedDeltas and PackedPointNumbers round trips for every list of i32 / every non-decreasing u16 "
                "list (by induction over the writer's run segmentation), legality of every run and control byte, "
                "compute_size = written length; for EVERY kernel (must_encode / can_iup answers as Section variables) the "
                "optimiser (both the forced-point branch and the doubled-contour branch of iup_contour_optimize) marks a delta "
                "optional only strictly between two consecutive retained points whose segment the kernel approved, keeps forced "
                "points and at least one point, and preserves length/order/values; rotation bookkeeping is a bijection. The model (incl. an exact rational kernel, the "
                "per-tuple gvar serialisation and shared-point choice) is tied to the code on every run: ~5.8k cases "
                "byte-exact / decision-exact under vm_compute. The property's end-to-end clauses (optional deltas within "
                "tolerance after the spec's inference; gvar read-back; outline at a location = default + sum scalar*delta up to "
                "final rounding, drawn by skrifa from a FontBuilder font at region start/peak/end) are checked on the "
                "implementation by exact-rational oracles over ~860k optimiser inputs (exhaustive small contours), 270 gvar "
                "tables (incl. exact 63..257-point sparse tuples, both read paths) and 11.9k draws (glyphs with and without data, composites, reused memory, both scalers) — partial for those clauses. "
                "Round 7 (application side, coq/C10/Apply*.v, IupApply*.v): exact 16.16 models of TupleVariation::compute_scalar, accumulate_dense/sparse_deltas and of skrifa's "
                "interpolate_deltas/shift/interpolate + unscaled to_i32 application, with unbounded theorems: compute_scalar = product of per-axis tent fractions with one "
                "round-half-away per axis, None outside any tent, ONE at the peaks, result in (0, ONE]; accumulation adds exactly delta*scalar (no rounding for i16 deltas), "
                "leaves unreferenced points alone, and the fold over a list of tuples is bit-for-bit order independent (any permutation); IUP application never changes a "
                "referenced point, writes only inside its ranges, and per coordinate is clamp-outside / linear-inside with the exact expression out1 + (p-i1)*rha(out2-out1, i2-i1). "
                "These models are tied on every run: ~4.1k cases of the real compute_scalar / accumulate_* (gvar built by write-fonts, boundary coords, invalid regions, short/long buffers, wrap-around) "
                "and ~600 glyph draws (skrifa FreeType-style scaler, unscaled) compared point-exactly with the model's unscaled_points."),
    level_note=("Trusted: Coq kernel; the hand-written model coq/C10/Model.v (agreement with the Rust code is checked, not proved); "
                "the rational kernel equals the f64 kernel only where the harness's f64 mirror and exact arithmetic agree (cases "
                "where they do not are not sent to the model; none occurred). Not proved: DP optimality, "
                "the kernel's meaning; the composition default + sum scalar*delta as one closed-form theorem; the run-byte readers of the accumulate fast paths; the f32 (HarfBuzz-style) scalar/scaler. "
                "One genuine defect found (F-C10-1, fixed in /repo 5894623; its reproducer stays in the oracle; see notes/C10.md)."),
    technique="Coq proof (induction over run segmentation and over the DP chain; lia; finite sweeps for control bytes) over a hand-written Gallina model + vm_compute correspondence with write-fonts/read-fonts + exact-rational implementation oracles incl. skrifa draws",
    modelled=["write-fonts/src/tables/variations.rs: PackedDeltas::{iter_runs,compute_size}, PackedDeltaRun::*, PackedPointNumbers::{iter_runs,write_into,compute_size,validate}, PackedPointRun::*",
              "read-fonts/src/tables/variations.rs: DeltaRunType::new, DeltaRunIter, count_all_deltas, PackedDeltas::{consume_all,iter}, PackedPointNumbers::{count_and_count_bytes,total_len,split_off_front,iter}, PackedPointNumbersIter, PointRunIter",
              "write-fonts/src/tables/gvar/iup.rs: iup_delta_optimize, iup_contour_optimize (both branches), iup_contour_optimize_dp, iup_must_encode; kernel must_encode_at/iup_segment/can_iup_in_between as an exact rational re-implementation",
              "write-fonts/src/tables/gvar.rs: GlyphDeltas::{pick_best_point_number_repr,build}, GlyphTupleVariationData::{compute_size,write_into}, GlyphVariations::compute_shared_points",
              "read-fonts/src/tables/variations.rs: TupleVariation::compute_scalar, accumulate_dense_deltas::<Fixed>, accumulate_sparse_deltas::<Fixed> (on decoded deltas)",
              "skrifa/src/outline/glyf/deltas.rs: interpolate_deltas, Jiggler::{shift,interpolate}, simple_glyph per-tuple closure (C=i32, D=Fixed); outline/glyf/mod.rs unscaled delta rounding (Fixed::to_i32)"],
    not_covered=["optimality of the IUP dynamic programme (only soundness is proved)",
                 "f64 kernel bit-exactness (no Flocq model): rational kernel on inputs where f64 decisions are exact",
                 "read_dense_deltas/read_sparse_deltas run-byte readers (accumulate models take decoded deltas; truncated-data error paths untested by the model); compute_scalar_f32 and HarfBuzzScaler (f32): oracle only; composite_glyph delta application: oracle only",
                 "no single theorem composing scalar, accumulation, inference and final rounding into default + sum scalar*delta (unscaled_points is compared with drawn points, not characterised)",
                 "gvar container (offsets array, short/long offsets, shared tuples): oracle + hand parser, not modelled",
                 "non-integer input deltas to the optimiser (rounding interplay) are not generated"],
    assumptions=["Rust integer semantics as in coq/Lib/RustInt.v; f64 +,-,*,/ and comparisons are IEEE in source order (no FMA contraction)"],
    trusted_base=["harness-side f64 mirror of iup_segment used only to decide which cases go to the rational Coq kernel"],
)
