SPEC = dict(
    id="C10",
    bin="c10",
    coq_dir="C10",
    coq_targets=["C10/Proofs.vo", "C10/PointProofs.vo", "C10/IupProofs.vo", "C10/IupUnforced.vo", "C10/Examples.vo"],
    allowed_axioms=[],
    level_text=("Unbounded Coq theorems about an executable model of the glyph-variation codecs and of the IUP optimiser's "
                "structure: PackedDeltas and PackedPointNumbers round trips for every list of i32 / every non-decreasing u16 "
                "list (by induction over the writer's run segmentation), legality of every run and control byte, "
                "compute_size = written length; for EVERY kernel (must_encode / can_iup answers as Section variables) the "
                "optimiser (both the forced-point branch and the doubled-contour branch of iup_contour_optimize) marks a delta "
                "optional only strictly between two consecutive retained points whose segment the kernel approved, keeps forced "
                "points and at least one point, and preserves length/order/values; rotation bookkeeping is a bijection. The model (incl. an exact rational kernel, the "
                "per-tuple gvar serialisation and shared-point choice) is tied to the code on every run: ~5.8k cases "
                "byte-exact / decision-exact under vm_compute. The property's end-to-end clauses (optional deltas within "
                "tolerance after the spec's inference; gvar read-back; outline at a location = default + sum scalar*delta up to "
                "final rounding, drawn by skrifa from a FontBuilder font at region start/peak/end) are checked on the "
                "implementation by exact-rational oracles over ~860k optimiser inputs (exhaustive small contours), 270 gvar "
                "tables (incl. exact 63..257-point sparse tuples, both read paths) and 11.9k draws (glyphs with and without data, composites, reused memory, both scalers) — partial for those clauses."),
    level_note=("Trusted: Coq kernel; the hand-written model coq/C10/Model.v (agreement with the Rust code is checked, not proved); "
                "the rational kernel equals the f64 kernel only where the harness's f64 mirror and exact arithmetic agree (cases "
                "where they do not are not sent to the model; none occurred). Not proved: DP optimality, "
                "the kernel's meaning, tent scalars / accumulation / skrifa interpolation (oracle only). "
                "One genuine defect found (F-C10-1, fixed in /repo 5894623; its reproducer stays in the oracle; see notes/C10.md)."),
    technique="Coq proof (induction over run segmentation and over the DP chain; lia; finite sweeps for control bytes) over a hand-written Gallina model + vm_compute correspondence with write-fonts/read-fonts + exact-rational implementation oracles incl. skrifa draws",
    modelled=["write-fonts/src/tables/variations.rs: PackedDeltas::{iter_runs,compute_size}, PackedDeltaRun::*, PackedPointNumbers::{iter_runs,write_into,compute_size,validate}, PackedPointRun::*",
              "read-fonts/src/tables/variations.rs: DeltaRunType::new, DeltaRunIter, count_all_deltas, PackedDeltas::{consume_all,iter}, PackedPointNumbers::{count_and_count_bytes,total_len,split_off_front,iter}, PackedPointNumbersIter, PointRunIter",
              "write-fonts/src/tables/gvar/iup.rs: iup_delta_optimize, iup_contour_optimize (both branches), iup_contour_optimize_dp, iup_must_encode; kernel must_encode_at/iup_segment/can_iup_in_between as an exact rational re-implementation",
              "write-fonts/src/tables/gvar.rs: GlyphDeltas::{pick_best_point_number_repr,build}, GlyphTupleVariationData::{compute_size,write_into}, GlyphVariations::compute_shared_points"],
    not_covered=["optimality of the IUP dynamic programme (only soundness is proved)",
                 "f64 kernel bit-exactness (no Flocq model): rational kernel on inputs where f64 decisions are exact",
                 "TupleVariation::compute_scalar, accumulate_dense/sparse_deltas, skrifa deltas.rs interpolate_deltas: implementation-only draw oracle",
                 "gvar container (offsets array, short/long offsets, shared tuples): oracle + hand parser, not modelled",
                 "non-integer input deltas to the optimiser (rounding interplay) are not generated"],
    assumptions=["Rust integer semantics as in coq/Lib/RustInt.v; f64 +,-,*,/ and comparisons are IEEE in source order (no FMA contraction)"],
    trusted_base=["harness-side f64 mirror of iup_segment used only to decide which cases go to the rational Coq kernel"],
)
