SPEC = dict(
    id="C10",
    bin="c10",
    coq_dir="C10",
    coq_targets=["C10/Proofs.vo", "C10/Examples.vo"],
    allowed_axioms=[],
    level_text="wip",
    level_note="wip",
    technique="Coq proof + vm_compute correspondence",
    modelled=[], not_covered=[], assumptions=[],
)
