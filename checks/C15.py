SPEC = dict(
    id="C15",
    bin="c15",
    bins=["c15", "c15f"],
    props=["C15/Props.v", "C15/FloatProps.v", "C15/OtRoundProps.v"],
    coq_dir="C15",
    coq_targets=["C15/Proofs.vo", "C15/Examples.vo", "C15/FloatProofs.vo", "C15/FloatExamples.vo", "C15/OtRoundProofs.vo", "C15/OtRoundExamples.vo"],
    allowed_axioms=["ClassicalDedekindReals.sig_forall_dec", "ClassicalDedekindReals.sig_not_dec",
                    "FunctionalExtensionality.functional_extensionality_dep", "Classical_Prop.classic"],
    level_text=("Unbounded Coq theorems (all i32 / all byte patterns) about an executable model of font-types' "
                "fixed-point and scalar kernels: mul/div/mul_div = exact quotient rounded half away from zero whenever "
                "representable, saturation on division by zero, big-endian round trips in both directions for every "
                "width and the 24-bit types, 24-bit saturation, 16.16->2.14/26.6/i32 conversions as the spec prescribes. "
                "Float clauses: symbolic Flocq proofs that to_f64/to_f32 are exact and from_fXX(to_fXX(x)) = x for ALL values of Fixed, "
                "F26Dot6 (binary64) and F2Dot14/F4Dot12/F6Dot10 (binary32), and that from_fXX rounds to nearest whenever its own +-0.5 "
                "addition is exact (sharp: the F-3 knife-edge witness); OtRound `(v + 0.5).floor()` equals half-up rounding floor(v + 1/2) of the real value for EVERY finite f32/f64 up to 2^(prec-1) - 1 except the single input pred(1/2) (sharp, generic in the float format; finding F-25), with the i16/u16 forms saturating that value. The models are tied to the code on every run by evaluating them "
                "with vm_compute on ~60k boundary-dense and random operand tuples the real functions were run on (floats bit-exactly)."),
    level_note=("Trusted: Coq kernel; the hand-written model coq/C15/Model.v (its agreement with font-types is checked, not proved); "
                "the harness generator. Float theorems rest on Flocq and therefore on the standard-library classical-reals axioms named in allowed_axioms; "
                "that rustc compiles f32/f64 * + - / floor and `as` to the IEEE-754 round-to-nearest-even operations in source order is assumed (and checked bit-exactly by the correspondence)."),
    technique="Coq proof (lia/Z arithmetic, bit lemmas) over hand-written Gallina model + vm_compute correspondence with font-types",
    modelled=["font-types/src/fixed.rs: fixed_impl! round/floor/fract/abs/neg/add/sub/saturating_*, fixed_mul_div! Mul/Div/mul_div, Fixed::{from_i32,to_i32,to_f26dot6,to_f2dot14}, F2Dot14::to_fixed",
              "font-types/src/int24.rs, uint24.rs: new, checked_new, to_be_bytes, from_be_bytes",
              "font-types/src/raw.rs: to_be_bytes/from_be_bytes of 16/32/64-bit scalars",
              "font-types/src/fixed.rs float_conv!: to_f32/to_f64/from_f32/from_f64 for all five fixed types (Flocq binary32/binary64)",
              "write-fonts/src/round.rs OtRound for f64/f32 -> f64/f32/i16/u16"],
    not_covered=["OtRound beyond 2^(prec-1) - 1 (float -> float form off by one on odd integers, F-25), kurbo Point/Vec2 wrappers: oracle only (must equal the modelled scalar forms component-wise)",
                 "from_fXX nearest-rounding is proved only under the exact-addition hypothesis; general doubles at the +-0.5 knife edge violate it (known finding F-3)",
                 "Tag, GlyphId, NameId, Offset*, Version newtypes: plain wrappers over the modelled integer codecs"],
    assumptions=["Rust integer semantics as in coq/Lib/RustInt.v (two's complement `as` casts, arithmetic >> on signed types)"],
)
