SPEC = dict(
    id="C15",
    bin="c15",
    coq_dir="C15",
    coq_targets=["C15/Proofs.vo", "C15/Examples.vo"],
    allowed_axioms=[],
    level_text=("Unbounded Coq theorems (all i32 / all byte patterns) about an executable model of font-types' "
                "fixed-point and scalar kernels: mul/div/mul_div = exact quotient rounded half away from zero whenever "
                "representable, saturation on division by zero, big-endian round trips in both directions for every "
                "width and the 24-bit types, 24-bit saturation, 16.16->2.14/26.6/i32 conversions as the spec prescribes. "
                "The model is tied to the code on every run by evaluating it with vm_compute on ~45k boundary-dense and random "
                "operand tuples that the real functions were run on. Float conversions (to_f32/to_f64/from_*; OtRound) are "
                "checked on the implementation only (exhaustive for the 16-bit types) — partial for those."),
    level_note=("Trusted: Coq kernel; the hand-written model coq/C15/Model.v (its agreement with font-types is checked, not proved); "
                "the harness generator. Float conversion theorems are not part of the Coq development: the evidence lists them under not_covered."),
    technique="Coq proof (lia/Z arithmetic, bit lemmas) over hand-written Gallina model + vm_compute correspondence with font-types",
    modelled=["font-types/src/fixed.rs: fixed_impl! round/floor/fract/abs/neg/add/sub/saturating_*, fixed_mul_div! Mul/Div/mul_div, Fixed::{from_i32,to_i32,to_f26dot6,to_f2dot14}, F2Dot14::to_fixed",
              "font-types/src/int24.rs, uint24.rs: new, checked_new, to_be_bytes, from_be_bytes",
              "font-types/src/raw.rs: to_be_bytes/from_be_bytes of 16/32/64-bit scalars"],
    not_covered=["float_conv! to_f32/to_f64/from_f32/from_f64 and write-fonts OtRound: implementation-only oracle (exhaustive over all 16-bit values; grid+random for 32-bit), no Coq theorem yet",
                 "Tag, GlyphId, NameId, Offset*, Version newtypes: plain wrappers over the modelled integer codecs"],
    assumptions=["Rust integer semantics as in coq/Lib/RustInt.v (two's complement `as` casts, arithmetic >> on signed types)"],
)
