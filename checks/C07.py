SPEC = dict(
    id="C07",
    bin="c07",
    coq_dir="C07",
    coq_pre_cmd="python3 translators/c07_idcounter.py && python3 translators/c07_state_audit.py",
    coq_targets=["C05/Proofs.vo", "C05/Sort.vo", "C05/Examples.vo", "C07/Proofs.vo", "C07/Equiv.vo", "C07/SharedPtsModel.vo", "C07/SharedPts.vo", "C07/PromoteModel.vo", "C07/Promote.vo", "C07/IdGen.vo", "C07/IdCounter.vo", "C07/StateGen.vo", "C07/StateAudit.vo", "C07/Examples.vo"],
    allowed_axioms=[],
    level_text=("Unbounded Coq theorems about the C05 model of write-fonts' object store and packer. Hash iteration: the ordered object map built by "
                "Graph::from_obj_store and the removed_edges check of both sorts are independent of HashMap iteration order (any permutation). "
                "Ids are names: Graph::serialize gives identical bytes under ANY injective renaming. Equivariance (round 2): for every strictly "
                "monotone renaming rho of ids, ObjectStore/TableWriter id assignment (store_ids_order_isomorphic), update_parents, sort_kahn, "
                "update_distances, assign_space_0, sort_shortest_distance, has_overflows, basic_sort, pack_objects and dump_table commute with rho; "
                "hence any two strictly increasing id streams give the same bytes/failure (counter_independent), and for every counter start and every "
                "interleaving of other threads' fetch_add draws the result equals the one with ids 0,1,2,... (concurrent_history_independent). "
                "Round 4: the premise 'one compilation's ids are a strictly monotone image of creation order' is a CHECKED tie: translators/c07_idcounter.py extracts "
                "the atomic's width, ObjectId's field width, start and step of ObjectId::next from graph.rs (pinned shape, no other use of the counter, no other "
                "ObjectId(..) construction; anything else = translator failure) into coq/C07/IdGen.v; proved from those numbers: 2^id_bits > 2^62 (ids_never_wrap), ids "
                "strictly monotone over the feasible life of the process, process_history_independent (every compilation of a process, whatever came before, gives the "
                "result of ids 0,1,2,...), and any narrower counter is not monotone at its wrap. "
                "These theorems cover the modelled basic path (Kahn / shortest distance); the space-assignment / duplication path is modelled and "
                "evaluated under three id streams per case but its equivariance is not proved. Extension promotion (round 3, coq/C07/PromoteModel.v): "
                "get_promotable_subtables + select_promotions_hb are modelled (ascending-id enumeration of the BTreeMap, stable sort_by_key, three-layer cut-off); "
                "proved: the promoted set/order is independent of the order in which the set of lookups is listed (promotion_candidate_order_independent), the ranked list "
                "is sorted by (score desc, id asc) i.e. ties are broken by creation order (promotion_ties_broken_by_id), the choice commutes with every strictly monotone "
                "renaming (promotion_equivariant); the statement without the canonical enumeration is refuted (promotion_unordered_candidates_refuted). Tied by "
                "correspondence: generated overflowing GSUB/GPOS with groups of equal-score lookups, the extension lookups read back from the real bytes must be the "
                "ones the model predicts. On the implementation the property is checked by a "
                "schedule experiment: generated object DAGs (incl. duplication path), real GPOS/GSUB/GDEF/name/cmap/HVAR/fvar tables, synthetic GPOS "
                "forcing splitting and promotion, a GSUB whose big lookups pairwise share a coverage (several 32-bit spaces overflowing in one isolation round), every layout builder that collects into hash containers (SinglePos/PairPos/MarkToBase/MarkToMark/MarkToLig/Cursive/ClassDef/Coverage builders, each also repeated 32x in-process), overflowing GSUB/GPOS tables whose lookups have EQUAL promotion scores with the cut-off inside the tied group, variable GPOS built through the public builders (SinglePos/PairPos glyph+class pairs/Cursive/MarkToBase/MarkToMark/MarkToLig, every value with deltas over its own regions, one shared VariationStoreBuilder; IVS + remapped GPOS bytes compared), gvar (random tuples; glyphs with several equally frequent, equally large private point sets; IUP-optimised symmetric outlines) and ItemVariationStore builders, FontBuilder::build and klippa::subset_font compiled repeatedly "
                "after unrelated compilations, on 1..16 threads with randomised starts, and in fresh child processes; all hashes must agree — partial "
                "(tested only) for gvar/IVS/klippa and the advanced path."),
    level_note=("Trusted: Coq kernel; coq/C05/Model.v (its agreement with write-fonts is checked on every run, not proved); the harness; the assumption "
                "that an atomic fetch_add hands one thread a strictly increasing sequence. A data race cannot be exhibited by the model; the only "
                "shared mutable state of the packer is the atomic id counter."),
    technique="Coq proof (Permutation, injective renaming) over the C05 Gallina model + vm_compute correspondence under several id streams + schedule/thread/process determinism experiment on the implementation",
    modelled=["write-fonts/src/graph.rs: ObjectStore::add (id draw), Graph::from_obj_store (HashMap -> BTreeMap), removed_edges checks of sort_kahn / sort_shortest_distance, Graph::serialize",
              "write-fonts/src/write.rs: TableWriter::add_table / write_offset (post-order id assignment, content dedup)",
              "write-fonts/src/tables/gvar.rs: GlyphVariations::compute_shared_points, max_by_first_key — coq/C07/SharedPtsModel.v; each tuple's best_point_packing and its size are case data (read back from the compiled bytes)",
              "process-/thread-wide state of write-fonts, klippa, incremental-font-transfer, shared-brotli-patch-decoder: item list extracted into coq/C07/StateGen.v by translators/c07_state_audit.py (pinned)",
              "write-fonts/src/graph.rs: OBJECT_COUNTER / ObjectId / ObjectId::next — widths, start, step extracted into coq/C07/IdGen.v by translators/c07_idcounter.py",
              "write-fonts/src/graph.rs: get_promotable_subtables (candidate enumeration), select_promotions_hb (stable ranking + layer cut-off) — coq/C07/PromoteModel.v; sizes and the f64 sort key are case data"],
    not_covered=["equivariance / hash-order independence of the space-assignment path (id_map HashMap iteration in isolate_subgraph_hb, fresh ids of duplicate_subgraph): modelled, evaluated under three id streams per case, not proved",
                 "orphan set in remove_orphans, parent set in get_promotable_subtables (GPOS/GSUB only): not modelled; child-process experiment only",
                 "find_subgraph_size / find_children_size and the f64 arithmetic of LookupSize::sort_key are not modelled (sizes and key are inputs of a promotion case; the key is checked against the exact quotient within 1)",
                 "gpos builders' visiting order of values vs. the first-seen region numbering of VariationStoreBuilder: schedule experiment only (varbuilder jobs)",
                 "gvar shared peak tuples, pick_best_point_number_repr (dense vs sparse), VariationStoreBuilder region ordering, klippa FnvHashMaps: schedule experiment only",
                 "a wrapped id counter cannot be exhibited on the implementation (2^32+ objects cannot be named from outside, no /repo hook): covered by the generated-width theorem only"],
    assumptions=["state hidden from a source scan (state kept by dependencies outside the four audited crates, e.g. read-fonts / skrifa / std, or reached through FFI) does not exist; read-fonts and skrifa are exercised by the schedule experiment only",
                 "an atomic fetch_add returns the previous counter value (so the n-th draw of the process returns start + n modulo 2^width); that it does not wrap within 2^62 draws is proved from the widths extracted from graph.rs on every run"],
)
