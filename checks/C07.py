SPEC = dict(
    id="C07",
    bin="c07",
    coq_dir="C07",
    coq_targets=["C05/Proofs.vo", "C05/Sort.vo", "C05/Examples.vo", "C07/Proofs.vo", "C07/Equiv.vo", "C07/Examples.vo"],
    allowed_axioms=[],
    level_text=("Unbounded Coq theorems about the C05 model of write-fonts' object store and packer: the ordered object map built by "
                "Graph::from_obj_store is independent of the HashMap iteration order (any permutation), so is the outcome of the "
                "removed_edges check that ends both sorts, and Graph::serialize produces identical bytes (or the identical panic) under "
                "ANY injective renaming of object ids applied to the object map and the order — ids are names only. "
                "Equivariance of the sorts / pack_objects / ObjectStore id assignment under strictly increasing id streams "
                "(hence concurrent_determinism and history_independence) is NOT proved; it is checked per case: the executable model "
                "is evaluated by vm_compute under three different id streams (different counter start and stride) and must reproduce the "
                "real bytes each time. The property itself is checked on the implementation by a schedule experiment: generated object "
                "DAGs (incl. the space-assignment/duplication path), real GPOS/GSUB/GDEF/name/cmap/HVAR/fvar tables, synthetic GPOS forcing "
                "splitting and extension promotion, gvar and ItemVariationStore builders, FontBuilder::build and klippa::subset_font are "
                "compiled repeatedly after random unrelated compilations, concurrently on 1..16 threads with randomised starts, and in "
                "fresh child processes (different HashMap seeds); all output hashes must agree — partial for gvar/IVS/klippa (tested only)."),
    level_note=("Trusted: Coq kernel; coq/C05/Model.v (its agreement with write-fonts is checked on every run, not proved); the harness. "
                "Theorems cover hash-iteration independence and id-renaming invariance of the serializer; monotone-renaming equivariance of "
                "sort_kahn/sort_shortest_distance/pack_objects and of ObjectStore id assignment is tested (3 id streams per case), not proved. "
                "A data race cannot be exhibited by the model; the only shared mutable state of the packer is the atomic id counter."),
    technique="Coq proof (Permutation, injective renaming) over the C05 Gallina model + vm_compute correspondence under several id streams + schedule/thread/process determinism experiment on the implementation",
    modelled=["write-fonts/src/graph.rs: ObjectStore::add (id draw), Graph::from_obj_store (HashMap -> BTreeMap), removed_edges checks of sort_kahn / sort_shortest_distance, Graph::serialize",
              "write-fonts/src/write.rs: TableWriter::add_table / write_offset (post-order id assignment, content dedup)"],
    not_covered=["pack_equivariant / kahn_equivariant / shortest_equivariant / store_ids_order_isomorphic / concurrent_determinism / history_independence: stated in coq/C07/Props.v (comment) and notes, not proved; checked per case under three id streams",
                 "id_map (HashMap) iteration in isolate_subgraph_hb, orphan set in remove_orphans, parent set in get_promotable_subtables: not modelled; covered by the child-process experiment only",
                 "gvar shared tuples/points, VariationStoreBuilder region ordering, klippa FnvHashMaps: schedule experiment only"],
    assumptions=["an atomic fetch_add hands each thread a strictly increasing sequence of ids (the only fact about the shared counter the argument needs)"],
)
