SPEC = dict(
    id="C07",
    bin="c07",
    coq_dir="C07",
    coq_targets=["C05/Proofs.vo", "C05/Sort.vo", "C05/Examples.vo", "C07/Proofs.vo", "C07/Equiv.vo", "C07/Examples.vo"],
    allowed_axioms=[],
    level_text=("Unbounded Coq theorems about the C05 model of write-fonts' object store and packer. Hash iteration: the ordered object map built by "
                "Graph::from_obj_store and the removed_edges check of both sorts are independent of HashMap iteration order (any permutation). "
                "Ids are names: Graph::serialize gives identical bytes under ANY injective renaming. Equivariance (round 2): for every strictly "
                "monotone renaming rho of ids, ObjectStore/TableWriter id assignment (store_ids_order_isomorphic), update_parents, sort_kahn, "
                "update_distances, assign_space_0, sort_shortest_distance, has_overflows, basic_sort, pack_objects and dump_table commute with rho; "
                "hence any two strictly increasing id streams give the same bytes/failure (counter_independent), and for every counter start and every "
                "interleaving of other threads' fetch_add draws the result equals the one with ids 0,1,2,... (concurrent_history_independent). "
                "These theorems cover the modelled basic path (Kahn / shortest distance); the space-assignment / duplication path is modelled and "
                "evaluated under three id streams per case but its equivariance is not proved. On the implementation the property is checked by a "
                "schedule experiment: generated object DAGs (incl. duplication path), real GPOS/GSUB/GDEF/name/cmap/HVAR/fvar tables, synthetic GPOS "
                "forcing splitting and promotion, a GSUB whose big lookups pairwise share a coverage (several 32-bit spaces overflowing in one isolation round), every layout builder that collects into hash containers (SinglePos/PairPos/MarkToBase/MarkToMark/MarkToLig/Cursive/ClassDef/Coverage builders, each also repeated 32x in-process), gvar and ItemVariationStore builders, FontBuilder::build and klippa::subset_font compiled repeatedly "
                "after unrelated compilations, on 1..16 threads with randomised starts, and in fresh child processes; all hashes must agree — partial "
                "(tested only) for gvar/IVS/klippa and the advanced path."),
    level_note=("Trusted: Coq kernel; coq/C05/Model.v (its agreement with write-fonts is checked on every run, not proved); the harness; the assumption "
                "that an atomic fetch_add hands one thread a strictly increasing sequence. A data race cannot be exhibited by the model; the only "
                "shared mutable state of the packer is the atomic id counter."),
    technique="Coq proof (Permutation, injective renaming) over the C05 Gallina model + vm_compute correspondence under several id streams + schedule/thread/process determinism experiment on the implementation",
    modelled=["write-fonts/src/graph.rs: ObjectStore::add (id draw), Graph::from_obj_store (HashMap -> BTreeMap), removed_edges checks of sort_kahn / sort_shortest_distance, Graph::serialize",
              "write-fonts/src/write.rs: TableWriter::add_table / write_offset (post-order id assignment, content dedup)"],
    not_covered=["equivariance / hash-order independence of the space-assignment path (id_map HashMap iteration in isolate_subgraph_hb, fresh ids of duplicate_subgraph): modelled, evaluated under three id streams per case, not proved",
                 "orphan set in remove_orphans, parent set in get_promotable_subtables (GPOS/GSUB only): not modelled; child-process experiment only",
                 "gvar shared tuples/points, VariationStoreBuilder region ordering, klippa FnvHashMaps: schedule experiment only"],
    assumptions=["an atomic fetch_add hands each thread a strictly increasing sequence of ids (the only fact about the shared counter the argument needs)"],
)
