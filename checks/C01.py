SPEC = dict(
    id="C01",
    bin="c01",
    bins=["c01"],
    coq_dir="C01",
    props=["C01/Props.v"],
    coq_targets=["C01/Proofs.vo", "C01/Examples.vo"],
    allowed_axioms=[],
    harness_timeout=3000,
    level_text="(draft)",
    level_note="(draft)",
    technique="Coq proof over hand-written Gallina model + vm_compute correspondence + implementation-only totality search",
    modelled=[], not_covered=[], assumptions=[],
)
