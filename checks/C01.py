# C01 — parsing and traversing untrusted font bytes never panics or hangs.
# Parts 1 (core reader) and 3 (selected hand-written helpers) + the totality search live here.
# The lead appends part 2 (generated table layouts): props "C01/LayoutProps.v", the Layout coq_targets,
# and a second bin — the lists below are plain lists for that purpose.
PROPS = ["C01/Props.v", "C01/PropsH.v", "C01/PropsI.v", "C01/PropsC.v", "C01/PropsD.v", "C01/LayoutProps.v"]
COQ_TARGETS = ["C01/Core.vo", "C01/Tables.vo", "C01/Proofs.vo", "C01/ModelH.vo", "C01/ProofsH.vo", "C01/ProofsH2.vo", "C01/IterModel.vo", "C01/IterProofs.vo", "C01/ClosureModel.vo", "C01/ClosureProofs.vo", "C01/ClosureRule.vo", "C01/ClosureInst.vo", "C01/CsModel.vo", "C01/CsProofs.vo", "C01/Cmap4Model.vo", "C01/Cmap4Proofs.vo", "C01/Examples.vo", "C01/LayoutProofs.vo", "C01/LayoutExamples.vo"]
BINS = ["c01", "c01l"]

SPEC = dict(
    id="C01",
    bin="c01",
    bins=BINS,
    coq_dir="C01",
    coq_pre_cmd="python3 translators/layout_extract.py && python3 translators/c01_closure_rule.py",
    props=PROPS,
    coq_targets=COQ_TARGETS,
    allowed_axioms=[],
    harness_timeout=3000,
    level_text=("Part 2 (translator tie): translators/layout_extract.py regenerates, on every run, Coq terms for ALL 256 generated table "
                "readers of read-fonts/generated (cursor walk, marker byte ranges, 1147 unwrapping getters) into coq/C01/LayoutGen.v; "
                "the generic theorem getters_safe (wf_safe L -> read succeeds -> no getter panics, for every byte content and length) and "
                "ranges_no_overflow are instantiated for every table by vm_compute (all_generated_layouts_safe, no table excluded). "
                "Parts 1+3: Unbounded Coq theorems (every byte list, every usize argument, usize = 2^64 explicit) about an executable model of "
                "the read-fonts core reader: FontData::{read_at, read_be_at, read_ref_at, read_array, slice, split_off, take_up_to}, "
                "every Cursor operation incl. the IFT varint, offset resolution, TableDirectory/FontRef::new/table_data (with std's "
                "binary_search_by), TTCHeader read, and the hand-written helpers postscript Index1/Index2 (read, get_offset, get), "
                "Loca::get_raw, VarLenArray get/iter, ComputedArray new/get/iter; round 2 (coq/C01/ModelH.v, PropsH.v): glyf SimpleGlyph::read_points_fast and points() (resolve_coords_len + PointIter), variations PackedPointNumbers (count/total_len/split_off_front/iter) and PackedDeltas (count_all_deltas/iter), cmap format 12 iteration with and without limits — each total (no slice index, unchecked integer op or unwrap can fire) with a step bound (flag loop <= flag bytes; PointIter <= 256*len+1 calls; packed points <= count or 65536; packed deltas <= count <= 64*(len+1); cmap12 group skipping <= groups+1 rounds, each limited group <= glyph_count code points). Proved: no modelled operation reaches a panic site "
                "(each unwrap / unchecked + / cast_slice is an explicit Panic outcome shown unreachable); read_at / read_array / "
                "resolve specs; cursor position monotone, finish Ok iff position <= len, saturation cannot fake success; table_data "
                "returns exactly file[offset, offset+length) of a record with the tag (any directory), complete on sorted directories; "
                "iteration step bounds (<= len+1 calls). The model is tied to the code on every run by ~11k boundary-rich cases (ops 1-22) "
                "(vm_compute vs the real public API). Everything else in read-fonts (generated tables through "
                "traversal::SomeTable::get_field, cmap/glyf/gvar/CFF/COLR/bitmap/... helpers) is covered by an implementation-only "
                "search: every font-test-data font x ~250k deterministic structure-aware mutations traversed under catch_unwind with a "
                "hang watchdog and buffer-position / thread purity re-runs — partial for those."),
    level_note=("Trusted: Coq kernel; the hand-written model coq/C01/Model.v (agreement with read-fonts is checked on generated cases, not "
                "proved); std's binary_search_by as transcribed for rustc 1.95 (its observable choice among duplicate / unsorted tags is "
                "part of the correspondence cases); the harness generator. Cursor is crate-private: its operations are tied through "
                "the generated readers that use them (TableDirectory, TTCHeader, Index1/2, SegmentMaps); read_u32_var has a model and "
                "theorems but no public entry point, so it is not tied. Stack depth and wall-clock time are only observed (watchdog), "
                "not proved. Known violation of the purity clause: Colr PaintId depends on the buffer address (reported as an oracle failure)."),
    technique="Coq proof over hand-written Gallina model + vm_compute correspondence with read-fonts + implementation-only totality/purity search",
    modelled=["read-fonts/generated/generated_*.rs + font.rs: all 256 generated table readers (read bodies, *_byte_range functions, getters) via translators/layout_extract.py -> coq/C01/LayoutGen.v (DSL and interpreter in coq/C01/Layout.v)",
              "read-fonts/src/font_data.rs: FontData::{split_off, take_up_to, slice, read_at, read_be_at, read_ref_at, read_array, check_in_bounds}, "
              "Cursor::{advance, advance_by, read, read_be, read_array, read_with_args, read_computed_array, read_u32_var, position, remaining_bytes, remaining, is_empty, finish}",
              "read-fonts/src/offset.rs: Offset::non_null, ResolveOffset::resolve, ResolveNullableOffset::resolve",
              "read-fonts/generated/font.rs: TableDirectory::read + getters, TTCHeader::read + getters; read-fonts/src/lib.rs: FontRef::{new, with_table_directory, table_data}, CollectionRef::{new, get}",
              "core::slice::binary_search_by (rustc 1.95) as used by table_data",
              "read-fonts/src/tables/glyf.rs: SimpleGlyph::{num_points, read_points_fast, points/points_impl}, PointIter::{next, advance_flags, advance_points}, resolve_coords_len",
              "read-fonts/src/tables/variations.rs: PackedPointNumbers::{count, count_and_count_bytes, total_len, split_off_front, iter}, PackedPointNumbersIter/PointRunIter::next, read_control_byte, PackedDeltas::{consume_all, iter}, count_all_deltas, DeltaRunIter::next, DeltaRunType::new",
              "read-fonts/src/tables/cmap.rs: Cmap12::{group, lookup_glyph_id, iter, iter_with_limits}, Cmap12Iter::next; generated Cmap12::read + groups()",
              "round 4 (IterModel.v): read-fonts/src/tables/varc.rs VarcComponentIter::next + VarcComponent::parse (+ DeltaRunIter::end), glyf.rs ComponentIter::next and ComponentGlyphIdFlagsIter::next, name.rs CharIter::next — each an instance of the generic iter_progress theorem, tied by ops 24-27",
              "round 4 (ClosureModel.v + generated ClosureRule.v): read-fonts/src/tables/gsub/closure.rs ClosureCtx::{closure_glyphs, needs_to_do_lookup, add_todo, pop_a_todo} and Gsub::closure_glyphs_once over abstract lookup semantics; the recording rule of needs_to_do_lookup is re-extracted from the source on every run (translators/c01_closure_rule.py)",
              "round 5 (CsModel.v): read-fonts/src/tables/layout.rs DeltaFormat::{new, value_count}, generated Device::read + getters, Device::iter, iter_packed_values (the `16 / bits` division is an explicit Panic); postscript/charstring.rs Evaluator::evaluate / evaluate_operator restricted to numbers, hstem, callsubr, callgsubr, return, endchar with Index::subr_bias and the NESTING_DEPTH_LIMIT rule for both call operators — tied by ops 28/29 (the charstring cases are evaluated in a child process)",
              "round 6 (Cmap4Model.v): read-fonts/src/tables/cmap.rs Cmap4::{code_range, lookup_glyph_id}, Cmap4Iter::{new, next} over the subtable arrays (both-end clamp of the next range), tied by op 30 on overlapping / unsorted / reversed segment families",
              "read-fonts/src/tables/postscript/dict.rs: parse_bcd (digit buffer index arithmetic, nibble decoding, f64 syntax acceptance; the Fixed value is not modelled), tied through dict::tokens",
              "read-fonts/generated/generated_postscript.rs Index1/Index2::read + getters; src/tables/postscript/index.rs read_offset, get_offset, get",
              "read-fonts/src/tables/loca.rs Loca::{read, len, get_raw}; src/array.rs VarLenArray::{get, iter}, ComputedArray::{new, get, iter}; read.rs VarSize::read_len_at; post.rs PString::read; avar.rs SegmentMaps::{read, read_len_at}; gvar.rs U16Or32"],
    not_covered=["generated table layouts (read + *_byte_range + getters of ~250 tables): part 2, coq/C01/Layout*.v (other builder); here only exercised by the traversal search",
                 "all other hand-written table code (cmap 4/14, glyf composite components, gvar/cvar tuple headers and tuple scalars, HVAR/VVAR/MVAR deltas, CFF charset/DICT, COLR, CBLC/EBLC/sbix/SVG, GDEF class/coverage, VARC, name/post strings): implementation-only search, no theorem in C01 (C08-C11, C14, C16 prove parts)",
                 "cmap12 iteration: totality and per-group limit are proved; the total-yield bound (<= groups * glyph_count with limits) follows from them but is not mechanised. Without limits an adversarial table can make iter() yield up to groups * 2^32 pairs, and with limits groups * glyph_count (a clamped-empty group lets the next group restart from a smaller end): both are proportional to the input, callers should use iter_with_limits",
                 "CollectionRef::get totality is tested (op 11) but only TTCHeader::read totality is proved",
                 "read_u32_var: modelled and proved total/monotone, not tied (no public entry point)",
                 "stack overflow and wall-clock termination: observed by the watchdog only; recursion depth is not modelled",
                 "32-bit targets (usize = 2^32): not modelled"],
    assumptions=["usize is 64 bits; a byte slice has length <= isize::MAX and elements in [0,256) ([valid] in the theorems)",
                 "Rust integer semantics as in coq/Lib/RustInt.v; overflow-checks profile for unchecked + and *",
                 "bytemuck::cast_slice::<u8,T> panics exactly when the length is not a multiple of size_of::<T>() (all T used are align-1)"],
    trusted_base=["std::slice::binary_search_by transcribed by hand for the installed rustc (1.95.0)"],
)
