SPEC = dict(
    id="C14S",
    bin="c14sbs",
    coq_dir="C14",
    props=["C14/SbsProps.v"],
    coq_targets=["C14/SbsProofs.vo", "C14/SbsExamples.vo"],
    allowed_axioms=[],
    level_text="temporary spec for the sparse-bit-set half of C14",
    level_note="temporary",
    technique="Coq proof + vm_compute correspondence",
    modelled=[], not_covered=[], assumptions=[],
)
