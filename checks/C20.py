SPEC = dict(
    id="C20",
    bin="c20",
    coq_dir="C20",
    coq_targets=["C20/Proofs.vo", "C20/Examples.vo"],
    allowed_axioms=[],
    harness_timeout=1500,
    level_text=("Partial. Unbounded Coq theorems about checked-profile (overflow-checks + debug-assertions) models of the arithmetic "
                "kernels that font data reaches: every kernel is proved trap-free on its whole argument type (hint math floor/round/ceil/"
                "floor_pad/round_pad/mul/div/mul_div/mul_div_no_round/mul14/normalize14 shift, every RoundState::round mode for every distance "
                "— Super45 for every period other than 0/-1, which SROUND/S45ROUND cannot install: complete 256-selector table —, "
                "Fixed/F26Dot6/F2Dot14 Neg, abs, fract, from_i32, to_* conversions, glyf midpoint, fvar normalize, avar apply, cmap4 "
                "map_codepoint+lookup_glyph_id, codegen count transforms, compute_checksum), with value theorems showing the repaired "
                "(explicitly wrapping) kernels compute the unwrapped result wherever the old code did not trap. The models are tied to the code "
                "on every run by vm_compute correspondence on ~36k operand tuples (including SROUND+ROUND executed by the real interpreter from "
                "a synthetic font; the ten interpreter arithmetic instructions and the scaled CVT are likewise executed by the real interpreter and read back). The bulk of the property is an implementation-only strict-profile search: generated TrueType bytecode "
                "pushing extreme operands into every arithmetic/rounding/delta/move instruction, and value-extreme field mutations of the test "
                "fonts followed by the skrifa draw/metrics/paint APIs, klippa and IFT selection/application; every overflow/assertion panic is "
                "reported keyed by source site (klippa sites: known findings)."),
    level_note=("Not proved: every arithmetic site outside the modelled kernels (the large majority by count — the evidence's "
                "`census` gives sites translated vs. arithmetic expressions found lexically in the anchored files). Those are covered "
                "only by the search. Trusted: Coq kernel; hand-written model (agreement checked, not proved); generators."),
    technique="Coq proof (lia) over checked-arithmetic Gallina models + vm_compute correspondence + strict-profile generated-bytecode / field-mutation search with panic-site classification",
    modelled=["skrifa/src/outline/glyf/hint/math.rs: floor, round, ceil, floor_pad, round_pad, mul, div, mul_div, mul_div_no_round, mul14, normalize14 (the one unchecked negation)",
              "skrifa/src/outline/glyf/hint/round.rs: RoundState::round (all 8 modes); engine/graphics.rs super_round",
              "font-types/src/fixed.rs: Neg, abs, fract, Mul, Div, mul_div, from_i32, to_i32, to_f26dot6, to_f2dot14, F2Dot14::to_fixed, F26Dot6::{from_i32,to_i32}",
              "skrifa hint engine/arith.rs: ADD SUB DIV MUL ABS NEG FLOOR CEILING MAX MIN closures; engine/cvt.rs WCVTF; hint/instance.rs CVT load (+cvar delta) and scaling; glyf/mod.rs compute_scale and setup_phantom_points (+tsb/vadvance); glyf/deltas.rs Jiggler::interpolate / shift (D = Fixed); fixed.rs AddAssign / SubAssign",
              "read-fonts collections/int_set/sparse_bit_set.rs decode_sparse_bit_set_nodes: filled-node range (start/end with bias and limit), child start accumulation, leaf value",
              "skrifa autohint/topo/segments.rs link_segments_default score term (oracle-only tie), autohint derived_constant",
              "read-fonts postscript/index.rs Index1/Index2::get + read_offset positions; postscript/charstring.rs callsubr/callgsubr biased index",
              "skrifa color/instance.rs ColrInstance::var_deltas variation index, with and without DeltaSetIndexMap (oracle-only tie)",
              "read-fonts layout.rs CoverageFormat2::get index, Device::iter value count; svg.rs Svg::glyph_data document range",
              "read-fonts: gvar.rs GlyphDelta::apply_scalar, cvar.rs CvtDelta::apply_scalar, cmap.rs Cmap12 map_codepoint/lookup_glyph_id (one group), hmtx.rs advance / side_bearing index arithmetic",
              "read-fonts: glyf.rs midpoint_i32; fvar.rs VariationAxisRecord::normalize; avar.rs SegmentMaps::apply; cmap.rs Cmap4::map_codepoint + lookup_glyph_id; lib.rs codegen_prelude::transforms::*; tables.rs compute_checksum"],
    not_covered=["all arithmetic outside the kernels above: rest of the TrueType interpreter (engine/*.rs, zone.rs, projection.rs, graphics.rs), autohint/**, color/**, metrics.rs, cff, generated *_byte_range sums, klippa, incremental-font-transfer — searched (strict profile), not proved",
                 "float arithmetic (never traps)",
                 "32-bit targets (usize = 64 bits assumed in transforms / cmap index arithmetic)"],
    assumptions=["Rust integer semantics as in coq/Lib/RustInt.v; overflow-checks and debug-assertions enabled (harness profile)",
                 "core::num::Wrapping and wrapping_*/saturating_*/checked_* never panic on overflow"],
)
