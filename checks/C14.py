SPEC = dict(
    id="C14",
    bin="c14",
    # the sparse-bit-set codec half (second builder) adds: bins += ["c14sbs"], props += ["C14/SbsProps.v"],
    # coq_targets += ["C14/SbsProofs.vo", "C14/SbsExamples.vo"]
    bins=["c14", "c14sbs"],
    props=["C14/Props.v", "C14/SbsProps.v"],
    coq_dir="C14",
    coq_targets=["C14/Proofs.vo", "C14/SetObs.vo", "C14/SetAfter.vo", "C14/SetDom.vo", "C14/SetRange.vo", "C14/SetRangeU.vo", "C14/SetEq.vo", "C14/SetOrd.vo", "C14/SetL0.vo", "C14/SetL0Proofs.vo", "C14/ProcessNP.vo", "C14/Examples.vo", "C14/ExamplesNP.vo",
                 "C14/SbsProofs.vo", "C14/SbsSpec.vo", "C14/SbsRoundtrip.vo", "C14/SbsClip.vo", "C14/SbsExamples.vo"],
    allowed_axioms=[],
    level_text=("Codec half: the sparse-bit-set round trip is PROVED IN GENERAL (sbs_roundtrip, sbs_roundtrip_auto: for every sorted set of u32, all four "
                "branch factors and to_sparse_bit_set: the encoder does not panic, decode(encode S) leaves nothing unread and has exactly the members of S); "
                "decoder totality and equivalence with an independent transcription of the IFT specification's decoding algorithm for inputs of ANY length (the u32 arithmetic of skip_nodes is proved never to overflow), the general encode/decode round trip for every sorted set of u32 and every branch factor incl. bias/max_value clipping (sbs_roundtrip, sbs_roundtrip_bias_max) and the filled-node clause (sbs_decode_filled_clipped/_root, sbs_filled_iff_full). Set half: "
                +"Unbounded Coq theorems about an executable model of read-fonts' IntSet / BitSet / BitPage and RangeSet. For EVERY sequence of "
                "insert / remove / insert_range / remove_range / extend / remove_all / union / intersect / subtract / invert / clear / "
                "assign operations on two evolving sets (induction over the operation list) the model state is well formed, its stored values "
                "stay inside the domain [0,dmax], and its membership function equals the mathematical set the operations define (pointwise "
                "boolean algebra; invert = complement), in inclusive and inverted mode; and every observation equals its definition on that "
                "mathematical set restricted to the domain, for both modes: contains, insert/remove return values, len = number of members, "
                "is_empty, forward/backward iteration = ascending/descending member sequence (every prefix), iter_after, first = min, "
                "last = max, iter_ranges / iter_excluded_ranges = the unique maximal runs of members / non-members, intersects_range and "
                "intersects_set = non-emptiness of the meet, == iff same members (same-mode and mixed-mode paths), cmp = lexicographic "
                "order of the member sequences. RangeSet (unbounded): after any insert sequence the ranges are sorted, disjoint, "
                "non-adjacent and cover exactly the union of the inserted ranges; intersection = canonical form of the pointwise meet. "
                "L0: an index-by-index model of the in-place BitSet::process (pages vector + page_map; estimate, compact, resize, "
                "back-to-front merge, drains) refines the L1 merge: proved UNBOUNDED end to end for every operator (union, intersect, subtract, "
                "reversed_subtract: c14_process_L0_refines_L1), with the representation invariant Inv0 (|page_map| = |pages|, page indices distinct and in range, majors ascending) preserved (c14_process_L0_preserves_inv); the bounded-exhaustive theorem is kept. "
                "The model is tied to the code on every run: the Rust harness drives the real "
                "IntSet/RangeSet through the public API (bounded-exhaustive short sequences over the page-edge-rich 11-value domain, random "
                "long sequences over every Domain impl of read-fonts - u32/u16/u8/GlyphId16/NameId/GlyphId/Tag, each with its own boundary values min, max-1, max - and custom domains; the list of `impl Domain` in the source is audited against the driven list) and coqc evaluates the model on the same sequences, comparing a full "
                "observation vector (len, contains, first/last, iter forward/backward/after, ranges, excluded ranges, intersects_range/set, "
                "==, cmp, returned bools); an independent BTreeSet shadow checks the same observations, hash agreement and "
                "discontinuous domains on the implementation alone. Sparse-bit-set codec: see the Sbs theorems."),
    level_note=("Trusted: Coq kernel; the hand-written model coq/C14/Model.v (agreement with read-fonts is checked on every run, not proved); "
                "the L0 model of BitSet::process (coq/C14/SetL0.v) is not observable through the public API: it is tied to the code by reading "
                "and to L1 by the refinement theorem c14_process_L0_refines_L1 (all operators, unbounded), L1 (Model.process, the definition the shards evaluate) being tied by the correspondence check; the rest of L0 "
                "(BitSetBuilder's page cache, binary searches, the per-u64-element loops of BitPage, range-iterator state machines) is tied "
                "by the correspondence check only. Indexing in the L0 model is totalised: index panics are not modelled at that layer. "
                "Tested only (shadow oracle on the implementation): Hash agreement, discontinuous domains, mixed-direction iteration."),
    technique="Coq proof (N bit lemmas, sorted association lists, induction over operation sequences) over hand-written Gallina model + vm_compute correspondence with read-fonts through the public API",
    modelled=["read-fonts/src/collections/int_set/{sparse_bit_set.rs, input_bit_stream.rs, output_bit_stream.rs}: decoder (BFS, filled nodes, bias/max, early break, skip_nodes), encoder per branch factor, to_sparse_bit_set, bit streams; plus an independent transcription of the IFT specification's decoding algorithm (spec_decode)",
              "read-fonts/src/collections/int_set/bitpage.rs: BitPage insert/remove/contains/insert_range/remove_range/len/iter/iter_after/iter_ranges, union/intersect/subtract (as one 512-bit integer)",
              "read-fonts/src/collections/int_set/bitset.rs: BitSet insert/remove/insert_range/remove_range/remove_all/extend/extend_unsorted/contains/len/clear/iter/iter_after/iter_ranges/process(union,intersect,subtract,reversed_subtract)/Eq/Ord (sorted major->page list + cached length)",
              "read-fonts/src/collections/int_set/mod.rs: Membership, IntSet insert/remove/insert_range/remove_range/extend/extend_unsorted/remove_all/union/intersect/subtract/invert/clear/contains/len/is_empty/iter/iter_after/iter_ranges/iter_excluded_ranges/first/last/intersects_range/intersects_set/Eq/Ord/is_inverted for continuous domains (all seven Domain impls: u32, u16, u8, GlyphId16, NameId, GlyphId, Tag - the case carries dmax)",
              "read-fonts/src/collections/range_set.rs: RangeSet insert/extend/FromIterator/iter/intersection, OrdAdjacency for u32/u16",
              "read-fonts/src/collections/int_set/bitset.rs (L0): process (steps 1-4), compact, compact_pages, resize, passthrough_behavior over (pages, page_map) — coq/C14/SetL0.v; proofs SetL0Proofs.v (steps 3-4, passthrough_left) and ProcessNP.v (step-1 front compaction, compact, !passthrough_left, Inv0 preservation)"],
    not_covered=[
                 "discontinuous Domain implementations (Even, TwoIntervals in the harness): implementation-only BTreeSet shadow oracle, not in the Coq model",
                 "Hash (equal sets hash equally; rebuild in the same/opposite mode hashes equally), mixed-direction iteration on one iterator, inclusive_iter, RangeSet<u16>: implementation-only oracle",
                 "process_L0_refines_L1 is proved for all operators and Inv0 is preserved (round 7), but the L0 model of process (SetL0.v) totalises indexing (nth default / set_nth no-op): index panics of the in-place code are not modelled at L0 (the proved invariants imply in-range access; panics are observed on the real code by the harness), and L0 itself is tied to bitset.rs by reading only - the correspondence check compares L1",
                 "other L0 details (BitSetBuilder cache, binary searches, per-element loops of BitPage, RangeIter state machines): correspondence only",
                 "serde impls, Display/Debug"],
    assumptions=["element domain is continuous [0, dmax] with dmax < 2^32 (u32, u16, u8, GlyphId, GlyphId16, Tag, NameId and custom continuous domains)",
                 "operation arguments lie in the domain (the Rust types guarantee it)"],
)
