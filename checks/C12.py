SPEC = dict(
    id="C12",
    bin="c12",
    coq_dir="C12",
    # translation tie: regenerates coq/C12/Gen.v from /repo's current source before the Coq build;
    # non-zero exit = the source no longer matches the statement shapes the translator understands
    coq_pre_cmd="python3 translators/c12_extract.py",
    coq_targets=["C12/Proofs.vo", "C12/Examples.vo"],
    allowed_axioms=[],
    level_text=("Unbounded Coq theorems about (i) the scratch-memory carving of TrueType drawing: alloc_slice/align_up are modelled "
                "statement by statement over an abstract base ADDRESS and buffer length; the ordered alloc_slice::<T>(count) sequences of "
                "FreeTypeOutlineMemory::new / HarfBuzzOutlineMemory::new and the size formula of Outline::required_buffer_size are "
                "re-extracted from /repo's source by a translator on every run (coq/C12/Gen.v) and the theorems are re-checked against "
                "them: a buffer of the advertised size is carved successfully at every base address (the proof's premises — alignments in "
                "{1,2,4,8} each dividing its predecessor, element sizes multiples of their alignment, alignments <= the slack term, and the "
                "size formula = sum of the sequence + slack — are evaluated on the extracted definitions), slices are in range, ordered, "
                "disjoint, aligned and of count*size bytes independent of the address, a short buffer yields None and never a panic; "
                "(ii) the reset discipline of hinting instances: for every field of HintInstance what setup does to it, which definition maps "
                "Engine::reset(Program::Font) wipes, the program order and the &self receiver of hint are extracted; the theorem "
                "reconfigure_history_free (state handed to the interpreter after reconfigure is the same for any two previous states, hence so is "
                "the result) holds for every table that passes an executable check and the extracted table passes it; lifted to "
                "HintingInstance::reconfigure across formats/engines; draws do not write the instance so their order is irrelevant; "
                "(iii) LocationRef::effective_coords (all-zero = none) and to_path/contour_to_path well-formedness ((MoveTo seg* Close)*, both "
                "path styles). The interpreter, CFF subfont construction and the autohinter are abstract functions of exactly the state the code "
                "hands them. The models are tied to the code by vm_compute correspondence on ~11k cases (real success/InsufficientMemory of "
                "draw with buffers of required-9..required+1 bytes at the real buffer addresses, draw_memory_size, size_of/align_of, "
                "effective coords, pen streams of unscaled glyphs), and the property's own wording is tested on the implementation: library vs "
                "caller memory (exact size, 8 alignments, zero and garbage filled), none vs zero location, fresh vs reused instances over every "
                "reconfiguration sequence of length <= 3 (<= 4 thorough), shuffled orders, 16 threads, stream well-formedness."),
    level_note=("Trusted: Coq kernel; translators/c12_extract.py (pattern-based, fails loudly on unknown shapes; its (size, align) table is "
                "re-checked against core::mem::{size_of,align_of} by the harness); the hand-written models of alloc_slice/align_up (their source "
                "text is pinned by the translator), of effective_coords and of to_path (checked by correspondence). That the TrueType interpreter, "
                "the CFF hinter and the autohinter are functions of their declared inputs is assumed (Section variables), and tested by the "
                "implementation-only oracle; finiteness of coordinates is tested only."),
    technique="Coq proof over hand-written + source-extracted Gallina (translator tie) + vm_compute correspondence + implementation-only differential oracle",
    modelled=["skrifa/src/outline/glyf/memory.rs: alloc_slice, align_up (hand model, text pinned); FreeTypeOutlineMemory::new, HarfBuzzOutlineMemory::new (extracted)",
              "skrifa/src/outline/glyf/outline.rs: Outline::required_buffer_size (extracted)",
              "skrifa/src/outline/glyf/hint/instance.rs: HintInstance fields, setup, reconfigure, hint receiver (extracted table drives the model)",
              "skrifa/src/outline/glyf/hint/engine/dispatch.rs: Engine::reset / run_program; hint/definition.rs: DefinitionMap::reset, DefinitionState::new (extracted)",
              "skrifa/src/outline/hint.rs: HintingInstance::reconfigure (hand model driven by the extracted field table and reuse patterns)",
              "skrifa/src/outline/hint.rs Engine::Auto arm + outline/autohint/instance.rs Instance::{fields, new} + autohint/metrics/mod.rs UnscaledStyleMetricsSet (extracted: the replaced autohinter instance / its lazily filled per-(font, location) metrics cache never reaches the new one; cache model auto_get/auto_draw_all)",
              "skrifa/src/instance.rs: LocationRef::is_default, effective_coords",
              "skrifa/src/outline/path.rs: to_path, contour_to_path, PendingState::emit/finish"],
    not_covered=["TrueType bytecode interpreter, CFF/CFF2 hinter, autohinter (incl. its lazily computed, RwLock-shared style metrics): abstract in the proofs; "
                 "history/order/thread independence for them is tested on the implementation only",
                 "FreeTypeScaler/HarfBuzzScaler loaders reading scratch memory before writing it: tested only (garbage-filled caller memory)",
                 "finite coordinates of emitted commands: tested only",
                 "with_temporary_memory stack buckets: not modelled (library memory is the reference behaviour of the oracle)"],
    assumptions=["usize is 64 bit; buffer [a, a+n) lies at least 8 bytes below 2^64",
                 "Rust integer semantics as in coq/Lib/RustInt.v",
                 "a &self receiver on a struct without interior mutability does not write it (Rust's type system); the translator extracts both facts"],
    trusted_base=["translators/c12_extract.py: regex/brace-matching extraction of the alloc_slice sequences, the size formula and the reset table; "
                  "unknown statement shapes abort the run (broken translation tie)"],
)
