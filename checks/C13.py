SPEC = dict(
    id="C13",
    bin="c13",
    coq_dir="C13",
    coq_targets=["C13/Proofs.vo", "C13/Examples.vo", "C13/Lookup.vo", "C13/ExamplesL.vo"],
    props=["C13/Props.v", "C13/PropsL.v"],
    allowed_axioms=[],
    harness_timeout=600,
    level_text=("Unbounded Coq theorems about an executable model of skrifa's COLR painting (ColorGlyph::paint, "
                "traverse_with_callbacks incl. the CollectFillGlyphPainter retry, traverse_v0_range, Decycler<usize,64>) over an "
                "ARBITRARY COLR instance (paint references, layers, base glyphs, clip boxes given by arbitrary functions: any v0/v1 table, "
                "any cyclic or dangling paint graph, any variation location) and an arbitrary client (the answer of "
                "paint_cached_color_glyph may depend on everything the client has seen): painting is a total function; whenever it "
                "reports success the callback stream is well nested (Dyck over transform/clip/layer with LIFO matching and layer modes), "
                "also for clients using the default fill_glyph; the decycler never indexes out of range, never underflows and restores "
                "its depth on every path; at most V(64) nodes are visited (V(0)=1, V(f+1)=1+B*V(f), B=255); a graph with a path of 64 "
                "edges (any reachable cycle) is never painted successfully by a client that does not draw from its cache, and is reported "
                "as PaintCycleDetected/DepthLimitExceeded when all references resolve. The model is tied to the code on every run: "
                "~1000 generated paint graphs (all 32 paint formats, chains of 61..66 edges, rho-shaped cycles, errors after a push, "
                "dangling references, identity / exactly cancelling brush transforms under PaintGlyph, clip boxes of every shape incl. inverted / zero-area / variable-crossing on root and nested glyphs, v0 tables) are compiled with write-fonts, painted by the real code under 4 client behaviours, each with a client overriding fill_glyph and one relying on the trait's default body (both streams compared), and "
                "result class + structural callback stream are compared with the model under vm_compute. The glyph-id lookups "
                "(v0_base_glyph / v1_base_glyph / v1_clip_box) are modelled as the code runs them: core::slice::binary_search_by of std 1.95 "
                "(branch-free, last probed non-Greater element) on lists that need not be sorted; PropsL.v: the lookup never panics and "
                "terminates on any list, a hit is a record of the list whose glyph id / range contains the glyph, on strictly sorted lists "
                "(disjoint well-formed clip ranges) it finds a record iff one exists and equals the association-list lookup; totality / "
                "balance / no-panic of painting are instantiated with these lookups on arbitrary (unsorted) graphs. Family `unsorted` (180 "
                "fonts per quick run: random / reversed / rotated / sorted-with-duplicates BaseGlyphList, baseGlyphRecords and ClipList, "
                "duplicate glyph ids, nested / touching / inverted clip ranges, record counts patched to exceed the file, to 0 with records "
                "present and to n-1) is painted for every glyph 0..12 and the model must predict exactly WHICH record the code finds."),
    level_note=("Trusted: Coq kernel; the hand-written model coq/C13/Model.v (agreement with skrifa is checked on generated cases, not proved); "
                "the harness generator. Floats are abstracted: whether a gradient emits a fill is data of the abstract node (chosen by the "
                "generator and compiled into a gradient that does/does not draw). Termination of the real code is observed (time budget), "
                "termination of the model is by construction. The visit count of the real code is not observable without instrumentation: "
                "the bound is a theorem about the model plus a callback-count/time budget on the implementation."),
    technique="Coq proof (structural induction on the remaining depth, stack-machine Dyck invariant) over hand-written Gallina model + vm_compute correspondence with skrifa on write-fonts-compiled COLR tables",
    modelled=["skrifa/src/color/mod.rs: ColorGlyphCollection::get (v1 preferred over v0), ColorGlyph::paint (root clip box, root decycler guard), ColorPainter default fill_glyph / paint_cached_color_glyph / pop_layer_with_mode",
              "skrifa/src/color/traversal.rs: traverse_with_callbacks (every ResolvedPaint arm, depth check first, `?` positions), CollectFillGlyphPainter (all 8 methods + inherited defaults), traverse_v0_range, get_clipbox_font_units (as a boolean)",
              "skrifa/src/decycler.rs: Decycler::new/enter, DecyclerGuard::drop (array of 64 ids, depth, depth/2 comparison, stale entries kept)",
              "skrifa/src/color/instance.rs: resolve_paint as far as structure goes (which child reads can fail; 32 formats collapsed to 6 structural kinds)",
              "read-fonts/src/tables/colr.rs: v1_layer / v1_base_glyph / v1_clip_box / v0_base_glyph / v0_layer as lookups with error outcomes; paint id = address of the paint",
              "read-fonts/src/tables/colr.rs v0_base_glyph / v1_base_glyph / v1_clip_box record search: records.binary_search_by(..) + &records[ix] (coq/C13/Lookup.v bs_find / bs_assoc / bs_clip over core::slice::binary_search_by of std 1.95, copied from coq/C01), exact on unsorted / duplicate / overlapping lists (shards evaluate check_case2 = binary-search model on every graph + association-list model on sorted graphs); a list whose record count exceeds the data = the accessor's Err (list absent), count 0 = empty, count n-1 = prefix"],
    not_covered=["float content of callbacks (transform matrices, brush geometry, colour stops, clip box coordinates): C12/C16 territory",
                 "the float conditions deciding whether a gradient draws at all are not modelled (taken as node data); the harness only uses clean parameter values",
                 "record counts that exceed the list by a FEW records (so that the array still fits in the file and the extra records are read from the bytes of the following paint tables) are not generated: only counts beyond the file, 0 and n-1; LayerList / layerRecords counts are not patched",
                 "the glyph id conversion `glyph_id.try_into()` (ids > 65535 give Ok(None) before the list is looked at) is only exercised at the root, where both outcomes fall through to v0 / no glyph",
                 "visit counter of the real code (no hook): implementation side checks time and callback budget only; F-6 (2^k retries for k nested PaintGlyph) is reported in notes, not as a failure, since the property asks for bounded",
                 "on errors the real stream may be ill nested (Examples.error_stream_prefix_refuted, counted as err_ill_nested_stream): outside the property text"],
    assumptions=["a paint id equals the address of the paint table: equal for the same table reached twice, different for different tables (the generator makes table contents unique)",
                 "client callbacks return normally; the client's paint_cached_color_glyph answer is a deterministic function of what it has seen"],
    trusted_base=["write-fonts COLR compilation + FontBuilder are used to obtain real tables (a wrong compilation shows up as a correspondence mismatch, not as a false proof)"],
)
