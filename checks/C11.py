SPEC = dict(
    id="C11",
    bin="c11",
    coq_dir="C11",
    coq_targets=["C11/Proofs.vo", "C11/Examples.vo"],
    allowed_axioms=[],
    level_text=("Unbounded Coq theorems about an executable model of read-fonts' axis normalisation "
                "(VariationAxisRecord::normalize: no overflow trap, result in [-1,1] for every record incl. degenerate ones, "
                "min/default/max -> -1/0/1, clamping, monotone, exact OpenType formula with explicit rounding), avar "
                "SegmentMaps::apply (exact at map points, linear mul_div interpolation between consecutive points, identity outside), "
                "the tent scalar (VariationRegion::compute_scalar = the specified per-axis tents accumulated with one explicit "
                "rounding per interpolating axis; 0 outside, 1.0 at peaks, in [0,1]), ItemVariationStore::compute_delta "
                "(= (sum delta*scalar + 0x8000) >> 16 in i64, no overflow for any row of <= 65535 i32 deltas), "
                "DeltaSetIndexMap::get (unpacking inverts the packed entries for every entry format; index beyond the count -> last entry), "
                "and the write-fonts VariationStoreBuilder (ivs_retrieval: for every list of delta sets and EVERY outcome of the "
                "optimiser — any grouping of rows into encodings under any covering shape, any row order, split at 0xFFFF rows — the row "
                "addressed by the returned index holds exactly the added per-region deltas after narrowing, region pruning and renumbering). "
                "The model is tied to the code on every run: ~20k boundary-rich cases (axis records, segment maps, assembled stores incl. "
                "malformed ones, raw rows, index maps, and ~400 small builder runs compared byte-for-byte at the decoded level) are evaluated by "
                "both the real crates and the model (vm_compute). Larger stores (thousands of rows; > 65 535 rows in the thorough tier) and "
                "HVAR metrics through skrifa GlyphMetrics are checked by the implementation-only oracle (retrieval identity, exact rational tent reference). "
                "Deepening round: avar_monotone_if_map_monotone (SegmentMaps::apply with the implemented mul_div rounding is monotone for every monotone map, "
                "and so is the whole user->F2Dot14 pipeline); compute_delta_total (over the RAW subtable bytes, any wordDeltaCount incl. beyond regionIndexCount, "
                "LONG_WORDS or not: never a panic, never an out-of-range index) with delta_set_layout (fixed stride, wide cells first, padding) and compute_delta_raw_spec; "
                "the metrics glue (advance_spec / lsb_spec / hvar_index_clamps: hmtx last-long-metric rule, lsb array, implicit index without a map, index clamped to the last entry, "
                "truncated delta, scaling) modelled and tied by correspondence on every variable test font with HVAR through skrifa GlyphMetrics; "
                "the 0xFFFF split rule (exactly MAX_ITEMS rows stay one subtable, no NULL / oversized subtable) proved and tied on stores with exactly 65 535 / 65 536 rows; "
                "ivs_retrieval_every_schedule (the retrieval identity for every merge schedule of the optimiser from Encoder::new's grouping) and build_with_total (no region_map panic)."),
    level_note=("Trusted: Coq kernel; the hand-written model coq/C11/Model.v (its agreement with the crates is checked on every run, not proved); "
                "the harness generators. The optimiser's cost heuristic (which encodings get merged) is deliberately not modelled: the retrieval theorem "
                "quantifies over all groupings instead, and the correspondence check feeds the grouping the real builder chose into the model. "
                "DeltaSetIndexMap::pack_map_data's choice of entry format and the skrifa metrics glue (scaling, gvar fallback) are covered by correspondence "
                "and the oracle only. Two recorded 16.16 range limits of the metrics pipeline are known findings."),
    technique="Coq proof (lia/nia over Z, list induction) over hand-written Gallina model + vm_compute correspondence with read-fonts/write-fonts/skrifa",
    modelled=["read-fonts/src/tables/fvar.rs: VariationAxisRecord::normalize, Fvar::user_to_normalized (all axes, shared tags, caller-provided output slice of any length and content; avar absent or v1); skrifa AxisCollection::location_to_slice by correspondence",
              "read-fonts/src/tables/avar.rs: SegmentMaps::apply",
              "read-fonts/src/tables/variations.rs: VariationRegion::compute_scalar, ItemVariationStore::compute_delta, ItemVariationData::{delta_set, delta_row_len} (ItemDeltas), DeltaSetIndexMap::get, advance_delta",
              "write-fonts/src/tables/variations.rs: DeltaSetIndexMap::{get_entry_format, pack_map_data}",
              "write-fonts/src/tables/variations/ivs_builder.rs: add_deltas, canonical_index_for_region, DeltaSetStorage::add (Direct/Deduplicated), ColumnBits::for_val, RowShape::{reuse, merge, can_cover, region_map}, RegionMap::{indices, word_delta_count, encode_raw_delta_values}, Encoding::{encode, merge_with, split_off_back}, Encoder::{new, encode}, optimize as an arbitrary merge schedule, build_unoptimized, make_region_list, VariationIndexRemapping",
              "skrifa/src/metrics.rs: GlyphMetrics::{advance_width, left_side_bearing} (hmtx base incl. default advance and lsb array, HVAR delta, truncation, checked add), FixedScaleFactor::apply; skrifa/src/instance.rs: Size::fixed_linear_scale, LocationRef::effective_coords",
              "read-fonts/src/tables/hvar.rs + variations.rs: advance_width_delta/lsb_delta via advance_delta / item_delta (implicit index, DeltaSetIndexMap clamp, Fixed::from_i32)",
              "read-fonts ItemVariationStore::compute_delta composed with ItemVariationData::delta_set over the raw bytes (compute_delta_raw)"],
    not_covered=["Encoder::optimize's cost heuristic and fonttools-compatible sort orders (compute_gain, ord_matching_fonttools, DeltaSet::cmp): abstracted as an arbitrary grouping/order; the real choice is fed into the model by the correspondence check",
                 "byte-level table framing (offsets, headers) of ItemVariationStore / fvar / avar / HVAR: exercised through the real writers and readers, not modelled (C01/C04 cover table layout)",
                 "DeltaSetIndexMap::pack_map_data picks a sufficient entry format: correspondence + oracle only (the unpack/pack inverse is proved for every format)",
                 "avar version 2, compute_float_delta / compute_scalar_f32, gvar phantom-point fallback and scaled sizes in skrifa metrics: oracle only (scaled size 62.5 ppem) or not covered",
                 "metrics for fonts that have gvar but no HVAR (phantom-point fallback), f32 conversion of raw values beyond 24 significant bits: oracle / not compared",
                 "more than 65 535 canonical regions (u16 index wrap in add_deltas) is outside the stated domain"],
    assumptions=["Rust integer semantics as in coq/Lib/RustInt.v; Fixed kernels as in coq/C15/Model.v (proved specs from C15.Proofs are reused)",
                 "delta sets are sparse maps (each region at most once per set) and at most 65 535 distinct regions are added"],
    trusted_base=["std HashMap/IndexMap iteration is only used where the order is irrelevant or re-sorted (make_region_list sorts by old index; IndexMap = insertion order)"],
)
