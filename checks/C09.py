SPEC = dict(
    id="C09",
    bin="c09",
    coq_dir="C09",
    coq_targets=["C09/Proofs.vo", "C09/Proofs2.vo", "C09/Proofs3.vo", "C09/Proofs4.vo", "C09/Proofs5.vo", "C09/Examples.vo",
                 "C09/Fast.vo", "C09/Fast2.vo", "C09/ExamplesF.vo"],
    props=["C09/Props.v", "C09/PropsF.v"],
    allowed_axioms=[],
    level_text=("Unbounded Coq theorems (no axioms) about an executable model of the glyf/loca writer (write-fonts "
                "SimpleGlyph/CompositeGlyph/GlyfLocaBuilder/Loca) and reader (read-fonts Glyph::read, SimpleGlyph::points, "
                "ComponentIter, Loca::get_raw/get_glyf): the flag run-length encoder round-trips for EVERY flag list (any run "
                "length, incl. > 256) and writes a run of k flags in 2*(k/256)+min(2,k mod 256) bytes; every coordinate "
                "sequence over the full i16 range whose successive deltas fit i16 is accepted and decodes back, each delta in "
                "the shortest form that represents it; an accepted simple glyph (<= 65535 points) reads back with the same "
                "contour count, bbox, end points, instructions, points and on-curve flags, and even length; LocaFormat short "
                "=> all offsets even, <= 0x1FFFE and exact under (off>>1) as u16; both loca formats return the offsets "
                "written; glyph i of the builder's (glyf, loca) is the i-th added glyph's own encoding, empty glyphs get equal "
                "offsets; every composite glyph (all anchor/transform forms, user flags, instructions) reads back exactly "
                "(ComponentIter, count_and_instructions); skrifa to_path (both path styles) is well-formed per contour and invariant "
                "under implied-on-curve elision with exact midpoints; the front end drops a point iff it is the exact midpoint of two "
                "off-curve neighbours and the elided contour draws exactly as the original (elision_lossless). The model is tied to the code on every run: ~3.8k boundary-rich cases (simple and composite glyphs, "
                "mutated byte strings, Loca::new offsets around 0x1FFFE/0x20000, builder sequences incl. totals 0x1FFFC..0x20004) "
                "are run through the real write-fonts/read-fonts code and through the model with vm_compute, byte-exact. "
                "SimpleGlyph::read_points_fast (the reader skrifa draws with) is inside the model: wherever points_impl succeeds it returns Ok and points() is its result narrowed to i16, for any content of the caller's "
                "flag slice (read_points_fast_eq_points); the writer never emits more flag bytes than points and read_points_fast returns "
                "exactly the points written (fast_roundtrip); the model's read_points_fast is compared with the real one (dirty flag slice, "
                "all 8 flag bits, wrong-length slices) on every simple glyph of the shards incl. ~400 foreign/malformed encodings. "
                "The write-fonts BezPath/f64 front end is checked on the implementation only (oracle: unscaled "
                "skrifa drawing vs the source path, and vs an independent contour->path reference in both path styles) — partial there."),
    level_note=("Trusted: Coq kernel; the hand-written model coq/C09/Model.v (its agreement with write-fonts/read-fonts is "
                "checked case by case, not proved); the harness generators. The write-fonts BezPath front end is modelled for integer coordinates only (f64 rounding/isclose: implementation "
                "oracle); skrifa to_path is modelled for quadratic outlines."),
    technique="Coq proof (induction over the RLE state machine and the readers, simulation of PointIter by read_points_fast, lia, exhaustive byte sweeps by vm_compute) over a hand-written Gallina model + vm_compute correspondence with write-fonts/read-fonts + implementation-only oracle incl. skrifa drawing",
    modelled=["write-fonts/src/tables/glyf/simple.rs: compute_point_deltas/flag_and_delta, RepeatableFlag::iter_from_flags + write_into (debug_assert), SimpleGlyph::write_into (asserts, `cur as u16 - 1`, padding), FromObjRef contour splitting",
              "write-fonts/src/tables/glyf/composite.rs: Component::compute_flag/write_into, Anchor/Transform write_into, CompositeGlyph::write_into (MORE_COMPONENTS, WE_HAVE_INSTRUCTIONS), From<ComponentFlags>; read-fonts Anchor/Transform::compute_flags",
              "write-fonts/src/tables/glyf/glyf_loca_builder.rs: add_glyph (validate, write, raw_loca), build; write-fonts/src/tables/loca.rs: LocaFormat::new, Loca::write_into; TableWriter::pad_to_2byte_aligned",
              "read-fonts generated_glyf.rs: Glyph::read, SimpleGlyph::read and getters, CompositeGlyph::read; read-fonts/src/tables/glyf.rs: resolve_coords_len, points_impl/PointIter (advance_flags, advance_points), ComponentIter, ComponentGlyphIdFlagsIter/count_and_instructions",
              "read-fonts/src/tables/loca.rs: Loca::read, get_raw, get_glyf",
              "read-fonts/src/tables/glyf.rs: SimpleGlyph::num_points, read_points_fast::<i32> (length check, `while i < n_points` flag loop over all remaining bytes as of /repo 6f0a45e, advance_by, x/y passes with checked reads and i32 wrapping_add, ON_CURVE mask; the caller's flag slice is an input of the model)",
              "write-fonts/src/tables/glyf/simple.rs (integer coordinates): simple_glyphs_from_kurbo element handling, InterpolatableContourBuilder::build, is_implicit_on_curve, is_mid_point",
              "skrifa/src/outline/path.rs: to_path, contour_to_path (FreeType and HarfBuzz styles), PendingState::emit/finish (Empty/PendingQuad), ContourPoint::midpoint"],
    not_covered=["independence of skrifa drawing from caller-provided scratch memory (garbage-filled / reused buffers, unscaled and 2 ppem, both path styles): implementation oracle only, bitwise comparison with the fresh-memory draw",
                 "read_points_fast: only C = i32 is modelled (F26Dot6/Fixed from_i32 shift and the spec_next mask are not); it equals points() only up to i16 narrowing (i32 accumulators, witness c09_fast_wrap_refuted) and reports Err(OutOfBounds) on truncated coordinate data where points() is silently empty",
                 "BezPath front end: modelled and proved for integer coordinates (from_path/elide/implicit, kind-7 tie); its f64 parts (isclose on non-integers, ot_round, multi-master interpolatable_glyphs_from_bezpaths, control box) are implementation oracle only; skrifa to_path is modelled (quadratic states) with well-formedness and elision-invariance theorems, cubic states not modelled (random integer line/quad paths drawn unscaled on a FontBuilder font and compared segment by segment)",
                 "flags_rle_shortest minimality among ALL flag encodings is not proved (only the exact length formula per run and the implementation-side comparison with an independently computed canonical length)",
                 "contour-count assert (>= 32767 contours) and 65535/65536-point glyphs: implementation only (too large for shards)"],
    assumptions=["Rust integer semantics of the overflow-checks + debug-assertions profile (i16 subtraction and `u16 - 1` trap; `as u16`/`as u8`/`as i8` truncate)",
                 "glyf data < 4 GiB (raw_loca stores `pos as u32`)",
                 "drawing oracle: the scaler translates outlines by xMin - lsb as FreeType does; the oracle and the kind-6 model expect exactly that translation (half of the drawn glyphs have lsb != xMin)"],
)
