SPEC = dict(
    id="C09",
    bin="c09",
    coq_dir="C09",
    coq_targets=["C09/Proofs.vo", "C09/Examples.vo"],
    allowed_axioms=[],
    level_text="(filled in below)",
    level_note="(filled in below)",
    technique="Coq proof (induction over the writer/reader state machines, lia, exhaustive byte sweeps) over a hand-written Gallina model + vm_compute correspondence with write-fonts/read-fonts; implementation-only oracle incl. skrifa drawing",
    modelled=[],
    not_covered=[],
    assumptions=[],
)
