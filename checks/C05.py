SPEC = dict(
    id="C05",
    bin="c05",
    coq_dir="C05",
    coq_targets=["C05/Proofs.vo", "C05/Sort.vo", "C05/Examples.vo"],
    allowed_axioms=[],
    level_text=("Unbounded Coq theorems about an executable model of write-fonts' offset packer: for EVERY object map and "
                "every layout that lists each object once, is closed under links, puts parents before children and passes the "
                "overflow gate (has_overflows = false), Graph::serialize succeeds and its output satisfies Resolves — every "
                "object is a byte-for-byte copy at its prefix-sum position, every offset field read with its width and added to "
                "the parent's position lands exactly on the (recursively resolving) target, every written offset equals the exact "
                "distance and is < 2^(8*width) — and the output length is the sum of the object sizes; pack_objects reports success "
                "only on a graph on which the gate returned false, and dump_table yields bytes only then, an error otherwise. "
                "The model (ObjectStore id assignment with content dedup, update_parents, sort_kahn, update_distances, assign_space_0, "
                "sort_shortest_distance, has_overflows, basic_sort, pack_objects' basic path, serialize incl. every u32/width panic) "
                "is tied to the code on every run: arbitrary object DAGs are compiled through the public FontWrite/TableWriter/dump_table "
                "API and the exact output bytes (or PackingFailed) are compared with the model's vm_compute result. Space assignment / "
                "isolation / duplication (32-bit links after the basic path fails) and GPOS/GSUB splitting/promotion are NOT modelled: "
                "for those an implementation-only walker re-checks Resolves from the input description on every successful output."),
    level_note=("Trusted: Coq kernel; the hand-written model coq/C05/Model.v (agreement with write-fonts checked on every run, not proved); "
                "the harness generator and its FontWrite implementation. The hypotheses 'order is a duplicate-free topological listing of all "
                "objects' and 'node positions = prefix sums' of the gate theorem are proved for the serializer but NOT yet derived from "
                "sort_kahn/sort_shortest_distance (kahn_order_topological is not proved; the correspondence and the walker check it per case)."),
    technique="Coq proof (list/Z reasoning, induction over the layout) over hand-written Gallina model + vm_compute correspondence with write-fonts through the public API + implementation-only Resolves walker",
    modelled=["write-fonts/src/write.rs: TableWriter::{add_table, write_slice, write_offset}, TableData::add_offset, TableData Eq/Hash (content), dump_table",
              "write-fonts/src/graph.rs: ObjectStore::add, Graph::{from_obj_store, from_objects, update_parents, sort_kahn, update_distances, assign_space_0, sort_shortest_distance, has_overflows, basic_sort, pack_objects (basic path; Failed when no 32-bit link), serialize}, Node::modified_distance, Distance ordering, OffsetLen::max_value"],
    not_covered=["assign_spaces_hb, find_space_roots_hb, find_connected_nodes_hb, isolate_subgraph_hb, duplicate_subgraph, try_isolating_subgraphs: not modelled (model answers Beyond); covered by the implementation-only walker only",
                 "try_splitting_subtables / try_promoting_subtables (GPOS/GSUB lookups): left to C16",
                 "adjust_offsets (name table): pub(crate), not reachable from generated graphs; F-5 witness on the model only (Examples.v c05_adjustment_underflow_refuted)",
                 "kahn_order_topological / shortest_order_topological: not proved"],
    assumptions=["Rust integer semantics as in coq/Lib/RustInt.v; BinaryHeap pops the maximum; BTreeMap iterates in key order",
                 "objects built through TableWriter have ascending, disjoint, in-bounds link fields of width 2/3/4 (obj_wf) — true by construction of add_offset for widths 2..4"],
)
