SPEC = dict(
    id="C05",
    bin="c05",
    coq_dir="C05",
    coq_targets=["C05/Proofs.vo", "C05/Sort.vo", "C05/Examples.vo"],
    allowed_axioms=[],
    level_text=("Unbounded Coq theorems about an executable model of write-fonts' offset packer. (1) Gate theorem: for EVERY object map and "
                "every layout that lists each object once, is closed under links, puts parents before children and passes the "
                "overflow gate, Graph::serialize succeeds and its output satisfies Resolves (every object a byte-for-byte copy at its "
                "prefix-sum position; every offset field read with its width and added to the parent's position lands exactly on the "
                "recursively resolving target; every written offset equals the exact distance and is < 2^(8*width); length = sum of sizes). "
                "(2) Sorts: whenever sort_kahn / sort_shortest_distance return (no panic) their order is duplicate-free, starts with the root, "
                "contains everything reachable, has every parent before each child, and node positions are the prefix sums (one generic "
                "loop invariant; no acyclicity hypothesis); on an acyclic graph all of whose objects are reachable sort_kahn is TOTAL: no panic, "
                "a permutation of all objects. (3) End-to-end for the basic path: if the root exists, nobody links it, link "
                "fields are well-formed and adjustments zero (graph_hyps), then pack_objects = success implies serialize succeeds and the root "
                "Resolves at 0; dump_table yields bytes only then, an error otherwise. The decidable forms layout_okb / graph_hypsb are proved "
                "sound and evaluated on every successful basic-path correspondence case. The model — ObjectStore id assignment with content "
                "dedup, update_parents, both sorts, has_overflows, pack_objects, serialize with every u32/width panic, AND (round 2) space "
                "assignment / isolation / duplication exactly as in /repo d1b6283 — is tied to the code on every run: arbitrary object DAGs are "
                "compiled through the public FontWrite/TableWriter/dump_table API and the exact output bytes / PackingFailed / panic are compared "
                "with the model's vm_compute result. No theorem covers the space-assignment path (there: byte-exact correspondence + an "
                "implementation-only walker re-checking Resolves from the input description). Splitting/promotion of real GPOS lookups (PairPos 1/2, "
                "MarkBase > 64 KiB, every device-flag subset, null and non-null devices, under a custom root with sibling blobs swept across the 16-bit "
                "boundary) is covered by an implementation-only readback oracle (no model, no theorem): never a panic, every record and every "
                "device/VariationIndex offset of the input found where the declared formats put it."),
    level_note=("Trusted: Coq kernel; the hand-written model coq/C05/Model.v (agreement with write-fonts checked on every run, not proved); "
                "the harness generator and its FontWrite implementation. Not proved: totality of the sorts (acyclic + reachable => no panic), "
                "graph_hyps for store-built maps (checked per case by graph_hypsb), anything about duplicate/isolate preserving the unfolding."),
    technique="Coq proof (list/Z reasoning, induction over the layout) over hand-written Gallina model + vm_compute correspondence with write-fonts through the public API + implementation-only Resolves walker",
    modelled=["write-fonts/src/write.rs: TableWriter::{add_table, write_slice, write_offset}, TableData::add_offset, TableData Eq/Hash (content), dump_table",
              "write-fonts/src/graph.rs: ObjectStore::add, Graph::{from_obj_store, from_objects, update_parents, sort_kahn, update_distances, assign_space_0, sort_shortest_distance, has_overflows, basic_sort, pack_objects, serialize, assign_spaces_hb, find_space_roots_hb, find_subgraph_hb, find_connected_nodes_hb, isolate_subgraph_hb, find_subgraph_map_hb, duplicate_subgraph, find_overflows, try_isolating_subgraphs, find_root_of_space}, Node::modified_distance, Distance ordering, OffsetLen::max_value"],
    not_covered=["assign_spaces_hb, find_space_roots_hb, find_connected_nodes_hb, isolate_subgraph_hb, duplicate_subgraph, try_isolating_subgraphs: modelled (round 2) and compared byte-for-byte, but no theorem (duplicate_preserves / isolate_preserves not proved); implementation-only walker",
                 "totality of sort_shortest_distance (update_distances / assign_space_0 / obj_order do not panic): not proved — partial correctness only; sort_kahn is proved total (c05_kahn_order_topological)",
                 "try_splitting_subtables / try_promoting_subtables (GPOS/GSUB lookups): not modelled; implementation-only readback oracle for PairPos 1/2 and MarkBase splits (GSUB and other lookup types: C16)",
                 "adjust_offsets (name table): pub(crate), not reachable from generated graphs; F-5 witness on the model only (Examples.v c05_adjustment_underflow_refuted)",
                 ],
    assumptions=["Rust integer semantics as in coq/Lib/RustInt.v; BinaryHeap pops the maximum; BTreeMap iterates in key order",
                 "objects built through TableWriter have ascending, disjoint, in-bounds link fields of width 2/3/4 (obj_wf) — true by construction of add_offset for widths 2..4"],
)
