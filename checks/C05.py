SPEC = dict(
    id="C05",
    bin="c05",
    coq_dir="C05",
    coq_targets=["C05/Proofs.vo", "C05/Sort.vo", "C05/Examples.vo", "C05/Dup.vo", "C05/SortTotal.vo", "C05/ExamplesTotal.vo"],
    props=["C05/Props.v", "C05/PropsTotal.v"],
    allowed_axioms=[],
    level_text=("Unbounded Coq theorems about an executable model of write-fonts' offset packer. (1) Gate theorem: for EVERY object map and "
                "every layout that lists each object once, is closed under links, puts parents before children and passes the "
                "overflow gate, Graph::serialize succeeds and its output satisfies Resolves (every object a byte-for-byte copy at its "
                "prefix-sum position; every offset field read with its width and added to the parent's position lands exactly on the "
                "recursively resolving target; every written offset equals the exact distance and is < 2^(8*width); length = sum of sizes). "
                "(2) Sorts: whenever sort_kahn / sort_shortest_distance return (no panic) their order is duplicate-free, starts with the root, "
                "contains everything reachable, has every parent before each child, and node positions are the prefix sums (one generic "
                "loop invariant; no acyclicity hypothesis); on an acyclic graph all of whose objects are reachable sort_kahn is TOTAL: no panic, "
                "a permutation of all objects; (round 7) sort_shortest_distance is TOTAL under the same hypotheses plus 'fewer than 2^32 objects' "
                "(update_parents / update_distances / assign_space_0 / main loop: no failed lookup, every distance <= total size < 2^32, obj_order <= "
                "number of objects, model fuels suffice, the cycle check passes), for the from_objects graph, for sort_kahn's result and for its own "
                "result (state predicate sd_ready re-established); the decidable form dag_okb of these hypotheses (rank = index in the model's Kahn "
                "order) is proved sound and evaluated on EVERY correspondence case (check_case_t). (3) End-to-end for the basic path: if the root exists, nobody links it, link "
                "fields are well-formed and adjustments zero (graph_hyps), then pack_objects = success implies serialize succeeds and the root "
                "Resolves at 0; dump_table yields bytes only then, an error otherwise. The decidable forms layout_okb / graph_hypsb are proved "
                "sound and evaluated on every successful basic-path correspondence case. The model — ObjectStore id assignment with content "
                "dedup, update_parents, both sorts, has_overflows, pack_objects, serialize with every u32/width panic, AND (round 2) space "
                "assignment / isolation / duplication exactly as in /repo d1b6283 — is tied to the code on every run: arbitrary object DAGs are "
                "compiled through the public FontWrite/TableWriter/dump_table API and the exact output bytes / PackingFailed / panic are compared "
                "with the model's vm_compute result. On the space-assignment path one function is proved (round 7): duplicate_subgraph keeps every original "
                "object, adds only fresh ids and returns a copy whose unfolding (bytes + link fields, to every depth) equals the original's, with "
                "the invariant re-established for the next call (hypotheses freshb/closedb evaluated per case); the rest of that path "
                "(assign_spaces, isolate_subgraph's redirects) has no theorem (there: byte-exact correspondence + an "
                "implementation-only walker re-checking Resolves from the input description). Splitting/promotion of real GPOS lookups (PairPos 1/2, "
                "MarkBase > 64 KiB, every device-flag subset, null and non-null devices, under a custom root with sibling blobs swept across the 16-bit "
                "boundary) is covered by an implementation-only readback oracle (no model, no theorem): never a panic, every record and every "
                "device/VariationIndex offset of the input found where the declared formats put it."),
    level_note=("Trusted: Coq kernel; the hand-written model coq/C05/Model.v (agreement with write-fonts checked on every run, not proved); "
                "the harness generator and its FontWrite implementation. Not proved: totality of has_overflows / basic_sort as a whole "
                "(the u32 subtraction of the gate), graph_hyps / dag_ok for store-built maps (checked per case by graph_hypsb / dag_okb), anything about "
                "duplicate/isolate preserving the unfolding."),
    technique="Coq proof (list/Z reasoning, induction over the layout) over hand-written Gallina model + vm_compute correspondence with write-fonts through the public API + implementation-only Resolves walker",
    modelled=["write-fonts/src/write.rs: TableWriter::{add_table, write_slice, write_offset}, TableData::add_offset, TableData Eq/Hash (content), dump_table",
              "write-fonts/src/graph.rs: ObjectStore::add, Graph::{from_obj_store, from_objects, update_parents, sort_kahn, update_distances, assign_space_0, sort_shortest_distance, has_overflows, basic_sort, pack_objects, serialize, assign_spaces_hb, find_space_roots_hb, find_subgraph_hb, find_connected_nodes_hb, isolate_subgraph_hb, find_subgraph_map_hb, duplicate_subgraph, find_overflows, try_isolating_subgraphs, find_root_of_space}, Node::modified_distance, Distance ordering, OffsetLen::max_value"],
    not_covered=["assign_spaces_hb, find_space_roots_hb, find_connected_nodes_hb, isolate_subgraph_hb, try_isolating_subgraphs: modelled (round 2) and compared byte-for-byte, but no theorem (isolate_preserves not proved: the moves to the new space and the redirect loop of isolate_subgraph_hb, and that Fresh/closed survive them); duplicate_subgraph alone IS proved content-preserving (c05_duplicate_subgraph_preserves, coq/C05/Dup.v); implementation-only walker for the whole path",
                 "totality of sort_shortest_distance: PROVED in round 7 (c05_sort_shortest_total*, coq/C05/SortTotal.v) for acyclic, fully reachable graphs with total size < 2^32 and < 2^32 objects; NOT proved: totality of has_overflows (u32 subtraction) and hence of basic_sort / pack_objects as a whole; graphs with total size >= 2^32 (sort_kahn's current_pos overflows first there: a panic with overflow-checks, a silent wrap without — not exercised, would need > 4 GiB of table data)",
                 "try_splitting_subtables / try_promoting_subtables (GPOS/GSUB lookups): not modelled; implementation-only readback oracle for PairPos 1/2 and MarkBase splits (GSUB and other lookup types: C16)",
                 "adjust_offsets (name table): pub(crate), not reachable from generated graphs; F-5 witness on the model only (Examples.v c05_adjustment_underflow_refuted)",
                 ],
    assumptions=["Rust integer semantics as in coq/Lib/RustInt.v; BinaryHeap pops the maximum; BTreeMap iterates in key order",
                 "objects built through TableWriter have ascending, disjoint, in-bounds link fields of width 2/3/4 (obj_wf) — true by construction of add_offset for widths 2..4"],
)
