SPEC = dict(
    id="C16",
    bin="c16",
    coq_dir="C16",
    coq_targets=["C16/Proofs.vo", "C16/Proofs2.vo", "C16/Examples.vo"],
    allowed_axioms=[],
    level_text="(filled at the end)",
    level_note="(filled at the end)",
    technique="Coq proof over hand-written Gallina model + vm_compute correspondence + reference lookup walker oracle",
    modelled=[],
    not_covered=[],
    assumptions=[],
)
