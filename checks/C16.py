SPEC = dict(
    id="C16",
    bin="c16",
    coq_dir="C16",
    coq_targets=["C16/Proofs.vo", "C16/Proofs2.vo", "C16/Proofs3.vo", "C16/Proofs4.vo", "C16/Proofs5.vo", "C16/Proofs6.vo", "C16/Examples.vo"],
    allowed_axioms=[],
    level_text=("Unbounded Coq theorems (29, all closed under the global context) about an executable model of the OpenType-layout "
                "builders, readers and overflow-splitting edits: coverage tables built from ANY u16 glyph list answer membership and "
                "coverage index exactly as the sorted set through the real binary-search readers, in either format and in the "
                "overflow-checks profile (coverage_get_spec, coverage_format_choice_irrelevant, coverage_membership); class "
                "definitions built from ANY assignment list answer the assigned class / 0, in either format "
                "(classdef_get_spec, classdef_format_choice_irrelevant); split_coverage on any well-formed table and any window "
                "(split_coverage_preserves); splitting a PairPos format 1 / format 2 / MarkBasePos subtable at ANY strictly "
                "increasing in-range split points preserves the first-match lookup for every glyph pair and yields nothing for "
                "pairs without a rule (split_pp1_preserves, split_pp2_preserves, split_m2b_preserves); promotion to an extension "
                "lookup preserves the lookup, flags, mark filtering set and subtable count (promote_preserves). "
                "The model is tied to the code on every run: ~1650 cases (builder outputs byte-parsed back, reader answers on built and on "
                "malformed raw tables incl. unsorted arrays that exercise the modelled core::slice::binary_search_by, and the split "
                "structure — per-piece coverage / classdef1 / mark arrays / base columns / lookup header — of every table the real compiler "
                "split or promoted) evaluated with vm_compute.  PairPosBuilder / MarkToBaseBuilder grouping and the byte-level TableData "
                "surgery are covered by an implementation-only reference lookup walker (every rule pair + thousands of pairs without a rule "
                "on rule sets from ~200 bytes to >4x64 KiB; value formats carrying every 2-/3-/4-subset of the four device / variation-index fields in either record, with per-record "
                "independent null offsets and pairwise distinct device tables, split 2..4+ ways, compared field by field) — partial for those."),
    level_note=("Trusted: Coq kernel; the hand-written model coq/C16/Model.v (agreement with write-fonts/read-fonts is checked on every run, not proved); "
                "the harness generators and the reference walker. The split-point size heuristics are NOT modelled: the theorems quantify over all "
                "strictly increasing in-range split points, and the shards replay the points the real compiler chose. "
                "builder_pairpos_spec (PairPosBuilder grouping) is tested only."),
    technique="Coq proof (induction over sorted lists / range lists, binary-search invariants, lia) over a hand-written Gallina model + vm_compute correspondence + implementation-only reference lookup walker",
    modelled=[
        "write-fonts/src/tables/layout/builders.rs: CoverageTableBuilder::{from_glyphs,build}, should_choose_coverage_format_2, ClassDefBuilderImpl::{from_iter,prefer_format_1,build}, iter_class_ranges",
        "write-fonts/src/tables/layout.rs: RangeRecord::iter_for_glyphs, are_sequential",
        "read-fonts/src/tables/layout.rs: CoverageFormat1::get, CoverageFormat2::get (incl. u16 overflow outcome), CoverageTable::iter, ClassDefFormat1::get, ClassDefFormat2::get; core::slice::binary_search_by (rustc 1.95 branch-free loop)",
        "write-fonts/src/graph/splitting.rs: split_coverage, split_range_record (incl. the three panic outcomes)",
        "write-fonts/src/graph/splitting/pairpos.rs: split_pair_pos_format_1 / split_off_ppf1, split_pair_pos_format_2 / split_off_ppf2 (class_map, coverage and classdef1 rebuilt through the builders, class re-basing) at the abstract level",
        "write-fonts/src/graph/splitting/mark2base.rs: get_class_info, split_off_mark_pos, split_off_mark_array, split_off_base_array at the abstract level",
        "write-fonts/src/graph.rs: actually_promote_subtables (lookup header and extension records)",
        "write-fonts/src/graph/splitting.rs: split_subtables (in-place replacement of split subtables, subtable count) at the lookup level; tied by the CSplitCount shards",
        "write-fonts/src/tables/layout/builders.rs: the public ClassDefBuilder::{checked_add, build_with_mapping} (return values, state after rejected adds, class ids by size order; tied by the CCdbSeq shards)",
        "write-fonts/src/tables/gpos/builders.rs: MarkToLigBuilder::insert_ligature (component list update; tied by the CLigSeq shards)",
        "write-fonts/src/tables/gpos/builders.rs: ClassPairPosBuilder::insert, ClassPairPosSubtable::{can_add,add}, ClassDefBuilder::{can_add,checked_add} (grouping of class rules into subtables; tied by the CClassSeq shards: per-subtable coverage and class counts)",
    ],
    not_covered=[
        "split-point selection (accumulated-size heuristics, ClassDefSizeEstimator, device-table accounting) and select_promotions_hb: not modelled; theorems hold for every admissible choice, the oracle checks the choices the compiler made still pack and preserve semantics",
        "PairPosBuilder / ClassPairPosBuilder / MarkToBaseBuilder / ClassDefBuilder (glyph sets -> class ids by size): implementation-only oracle (reference walker / mapping check), no Coq theorem (builder_pairpos_spec not proved)",
        "byte-level TableData surgery (offset-record index arithmetic, device offsets redistributed by copy_value_rec): tied to the abstract edits by the shards (structure) and the walker (values, device / variation-index records), not by theorems",
        "split_m2b_preserves assumes the mark coverage iterates in increasing glyph order with indices = positions (m2b_cov_ok): proved for every builder-made coverage in either format (built_coverage_meets_split_assumptions), an assumption for hand-made tables",
        "GSUB builders, SinglePos/Cursive/MarkLig/MarkMark builders: not covered",
    ],
    assumptions=[
        "glyph ids, classes and coverage indices are u16 (Forall u16 in the theorems); BTreeMap / sort_unstable+dedup behave as sorted association lists / sorted sets",
        "core::slice::binary_search_by is the branch-free loop of rustc >= 1.82 (modelled; validated on unsorted inputs by the raw-table shards)",
    ],
    trusted_base=[
        "reference lookup walker in harness/src/bin/c16.rs (first-match over subtables, extension indirection read per subtable, PairPos1/2 and MarkBasePos decoding via read-fonts accessors, coverage/classdef queries via read-fonts get)",
    ],
)
