SPEC = dict(
    id="C08",
    bin="c08",
    coq_dir="C08",
    coq_targets=["C08/Proofs.vo", "C08/Examples.vo"],
    allowed_axioms=[],
    level_text="(filled in below)",
    level_note="",
    technique="Coq proof over hand-written Gallina model + vm_compute correspondence",
    modelled=[],
    not_covered=[],
    assumptions=[],
)
