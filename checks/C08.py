SPEC = dict(
    id="C08",
    bin="c08",
    coq_dir="C08",
    coq_targets=["C08/Proofs.vo", "C08/Iter4.vo", "C08/Fits4.vo", "C08/Var14.vo", "C08/Reader.vo", "C08/Iter14.vo", "C08/Examples.vo"],
    allowed_axioms=[],
    level_text=("Unbounded Coq theorems (all finite mappings over U+0000..U+10FFFF to 16-bit non-zero glyph ids, all code points) about an "
                "executable model of write-fonts Cmap::from_mappings (sort, dedup, conflict detection, Format4SegmentComputer with its "
                "split/combine cost logic, create_format_4 incl. the i16 delta conversion and id_range_offset arithmetic, create_format_12) "
                "and of the read-fonts lookups (Cmap4/Cmap12 binary search, range_offset/2 + (c-start) - (segcount-i) indexing, gid!=0 filter, "
                "Cmap::map_codepoint record walk): whenever the builder produces a table, format-4 lookup of every BMP code point except "
                "U+FFFF, format-12 lookup of every code point and the table-level map_codepoint equal the input mapping; the segment computer's "
                "output partitions the BMP part of the mapping and never trips its assertion; the encoded delta is gid-cp modulo 2^16 for every "
                "delta (the conversion is total since the fix of F-2); format-12 iteration yields exactly the sorted input pairs and the groups are "
                "ascending, disjoint, maximal; format 12 is emitted iff some char is beyond the BMP (format 4 iff some char is inside); conflicts "
                "are reported iff real; skrifa Charmap::map through subtable selection equals the mapping, and Charmap::mappings equals the sorted "
                "input (U+10FFFF included). The model is "
                "tied to the code on every run: ~1300 small mappings, ~450 arbitrary/malformed decoded format-4 tables, ~300 format-12 tables and "
                "~225 format-14 tables are run through the real code and through the model (segment arrays, groups, lookups, iterations, skrifa "
                "Charmap answers compared). Independently of the model, every built table is swept over all 65 536 BMP code points and a boundary "
                "set beyond against the input mapping through Cmap, Cmap4, Cmap12 and skrifa Charmap (map, mappings), and format-14 answers are "
                "compared with what was encoded. Round 2: cmap4_iter_exact (Cmap4Iter = BMP part of the input ++ the sentinel pair (0xFFFF,0) iff U+FFFF is unmapped), "
                "charmap_mappings_exact in every selection case, fits4_exact / format4_build_total / format4_build_panics_beyond_fits4 / "
                "format4_build_refuted_beyond_fits4 (fits4 = exactly the mappings on which create_format_4 and compute_length do not panic; beyond it the "
                "code panics: known finding F-9), and cmap14_answers (Cmap14::map_variant = the encoded default / non-default / absent answer on every "
                "well-formed selector table; the shards evaluate both the model and this specification on tables built with the write-fonts cmap14 types and on the "
                "format-14 subtable of font-test-data's cmap14_font1.ttf, and check wf14b, which wf14b_reflects proves sufficient for wf14). Round 4: "
                "cmap4_iter_is_lookup (iterator = lookup, each pair once, ascending, on built tables) and the reader on ARBITRARY segment arrays: "
                "cmap4_reader_total (the u16/usize subtraction panic sites of map_codepoint and Cmap4Iter are unreachable for every table), "
                "cmap4_map_sound_any (any answer is the format's value of a segment containing c), cmap4_lookup_value / cmap4_lookup_out_of_array "
                "(offsets outside the glyph array answer None), cmap4_map_sorted_any (complete on sorted arrays), cmap4_iter_asc_any (strictly ascending on every table); "
                "~450 arbitrary/malformed tables per run are evaluated through the checked model as well. Round 5: cmap14_iter_exact "
                "(Cmap14Iter / Charmap::variant_mappings = exactly the triples map_variant answers, each (code point, selector) once, default ranges expanded to "
                "start..=start+additionalCount) for well-formed tables with disjoint default/non-default entries; the format-14 stream covers additionalCount 0/1/254/255 and "
                "ranges ending at U+10FFFF, enumerated through Cmap14::iter and Charmap::variant_mappings; every call into the code under test runs under catch "
                "(a panic is an oracle failure keyed panic:<file:line>:<msg> with its input). Round 6: every skrifa Charmap observation is taken through both "
                "constructors (Charmap::new and MappingIndex::new(..).charmap(..)), must agree, and the model is fed from the second; 450 hand-built encoding-record lists per run "
                "(all platform/encoding kinds in arbitrary order, duplicates, formats 4/12/14/unsupported, symbol) are compared with the model's selection of the code-point and "
                "variation subtables (map, mappings, has_map, is_symbol, has_variant_map, map_variant)."),
    level_note=("Trusted: Coq kernel; the hand-written model coq/C08/Model.v at the level of decoded arrays (its agreement with the Rust code is "
                "checked by vm_compute on every run, not proved; the byte codec of the compiled table is C04's business and is exercised here only "
                "through dump_table -> read); the harness generator. Theorems are conditional on from_mappings returning a table: it still panics for BMP mappings whose format-4 "
                "encoding exceeds 65535 bytes (known finding F-9). F-2 (i16 delta panic) and the U+10FFFF iterator limit were fixed in /repo; their oracle keys stay live and their inputs are fixed probes of the harness."),
    technique="Coq proof (induction over the segment computer / row builder, binary-search invariants, lia) over hand-written Gallina model + vm_compute correspondence with write-fonts/read-fonts/skrifa + exhaustive-BMP implementation oracle",
    modelled=["write-fonts/src/tables/cmap.rs: Cmap::from_mappings, CmapSubtable::create_format_4, create_format_12, Format4Segment::{len,cost,can_combine,should_combine,combine}, Format4SegmentComputer::{new,make_segment,next_possible_segment,compute}, Cmap4::compute_length",
              "read-fonts/src/tables/cmap.rs: Cmap::map_codepoint, Cmap4::{map_codepoint,lookup_glyph_id,code_range}, Cmap4Iter, Cmap12::{map_codepoint,lookup_glyph_id,group}, Cmap12Iter (+Cmap12IterLimits), Cmap14::map_variant (textbook binary search over well-formed tables)",
              "skrifa/src/charmap.rs: MappingSelection::new (codepoint and variant subtable choice), MappingIndex::{new,charmap} (by correspondence with the same model), Charmap::{map,mappings,map_variant,has_map,is_symbol,has_variant_map}, CodepointSubtable::{map,map_impl}"],
    not_covered=["a closed-form (segment-independent) description of fits4: fits4 is computed from the segments the segment computer chooses; only the sharp isolated-points limit (8188 fit, 8189 do not) is proved as an instance",
                 "Cmap12Iter with arbitrary limits on malformed group arrays: model + correspondence + oracle only",
                 "format-12 reader on malformed group arrays (overlap clamp, u32 wrap, limits): model + correspondence only; it has no arithmetic panic sites (wrapping/saturating ops)",
                 "Cmap14::map_variant on UNSORTED selector tables: core::slice::binary_search_by's probe order is a std implementation detail; only well-formed tables are modelled/generated",
                 "optimality of the segment computer (not required by the property); byte-level layout of the compiled table (C04); Cmap::closure_glyphs; symbol-encoded fonts (PUA remap) are modelled but never produced by from_mappings"],
    assumptions=["Rust integer semantics as in coq/Lib/RustInt.v; Vec::sort on (char, GlyphId) = the unique ascending arrangement (total order, equal elements identical)",
                 "from_mappings hands create_format_12 strictly ascending char codes (proved: canon_asc), so its HashMap/dedup indirection is the identity and is not modelled",
                 "u32 overflow of prev_gid+1 for gid = u32::MAX is subsumed by create_format_4's assert on 16-bit gids (both panic)"],
    trusted_base=["write-fonts dump_table / read-fonts FontRead for the cmap header and array layout (only exercised; property C04)"],
)
