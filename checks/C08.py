SPEC = dict(
    id="C08",
    bin="c08",
    coq_dir="C08",
    coq_targets=["C08/Proofs.vo", "C08/Iter4.vo", "C08/Fits4.vo", "C08/Var14.vo", "C08/Examples.vo"],
    allowed_axioms=[],
    level_text=("Unbounded Coq theorems (all finite mappings over U+0000..U+10FFFF to 16-bit non-zero glyph ids, all code points) about an "
                "executable model of write-fonts Cmap::from_mappings (sort, dedup, conflict detection, Format4SegmentComputer with its "
                "split/combine cost logic, create_format_4 incl. the i16 delta conversion and id_range_offset arithmetic, create_format_12) "
                "and of the read-fonts lookups (Cmap4/Cmap12 binary search, range_offset/2 + (c-start) - (segcount-i) indexing, gid!=0 filter, "
                "Cmap::map_codepoint record walk): whenever the builder produces a table, format-4 lookup of every BMP code point except "
                "U+FFFF, format-12 lookup of every code point and the table-level map_codepoint equal the input mapping; the segment computer's "
                "output partitions the BMP part of the mapping and never trips its assertion; the encoded delta is gid-cp modulo 2^16 for every "
                "delta (the conversion is total since the fix of F-2); format-12 iteration yields exactly the sorted input pairs and the groups are "
                "ascending, disjoint, maximal; format 12 is emitted iff some char is beyond the BMP (format 4 iff some char is inside); conflicts "
                "are reported iff real; skrifa Charmap::map through subtable selection equals the mapping, and Charmap::mappings equals the sorted "
                "input when a format-12 subtable exists (U+10FFFF included). The model is "
                "tied to the code on every run: ~1300 small mappings, ~450 arbitrary/malformed decoded format-4 tables, ~300 format-12 tables and "
                "~225 format-14 tables are run through the real code and through the model (segment arrays, groups, lookups, iterations, skrifa "
                "Charmap answers compared). Independently of the model, every built table is swept over all 65 536 BMP code points and a boundary "
                "set beyond against the input mapping through Cmap, Cmap4, Cmap12 and skrifa Charmap (map, mappings), and format-14 answers are "
                "compared with what was encoded. Format-4 iteration (hence Charmap::mappings of BMP-only fonts) and format-14 lookup have a model that "
                "is checked against the code but no Coq theorem: partial for those."),
    level_note=("Trusted: Coq kernel; the hand-written model coq/C08/Model.v at the level of decoded arrays (its agreement with the Rust code is "
                "checked by vm_compute on every run, not proved; the byte codec of the compiled table is C04's business and is exercised here only "
                "through dump_table -> read); the harness generator. Theorems are conditional on from_mappings returning a table: it still panics for BMP mappings whose format-4 "
                "encoding exceeds 65535 bytes (known finding F-9). F-2 (i16 delta panic) and the U+10FFFF iterator limit were fixed in /repo; their oracle keys stay live and their inputs are fixed probes of the harness."),
    technique="Coq proof (induction over the segment computer / row builder, binary-search invariants, lia) over hand-written Gallina model + vm_compute correspondence with write-fonts/read-fonts/skrifa + exhaustive-BMP implementation oracle",
    modelled=["write-fonts/src/tables/cmap.rs: Cmap::from_mappings, CmapSubtable::create_format_4, create_format_12, Format4Segment::{len,cost,can_combine,should_combine,combine}, Format4SegmentComputer::{new,make_segment,next_possible_segment,compute}, Cmap4::compute_length",
              "read-fonts/src/tables/cmap.rs: Cmap::map_codepoint, Cmap4::{map_codepoint,lookup_glyph_id,code_range}, Cmap4Iter, Cmap12::{map_codepoint,lookup_glyph_id,group}, Cmap12Iter (+Cmap12IterLimits), Cmap14::map_variant (textbook binary search over well-formed tables)",
              "skrifa/src/charmap.rs: MappingSelection::new (codepoint subtable choice), Charmap::{map,mappings}, CodepointSubtable::{map,map_impl}"],
    not_covered=["cmap4_iter_exact (Cmap4Iter yields exactly the BMP pairs plus the sentinel pair (0xFFFF,0)): model + correspondence + oracle only, no Coq theorem",
                 "charmap_mappings_exact for fonts whose selected subtable is format 4 (BMP-only): needs cmap4_iter_exact; model + correspondence + oracle only",
                 "cmap14_answers (default / non-default / absent): implementation-only oracle against the encoded tables plus model correspondence; there is no variation-selector builder in write-fonts/src/tables/cmap.rs",
                 "totality of the builder (exact characterisation of when from_mappings returns a table): the delta conversion is proved total; the length / id_range_offset overflow panics (F-9) are modelled and exercised, not characterised by a theorem",
                 "optimality of the segment computer (not required by the property); byte-level layout of the compiled table (C04); Cmap14Iter, Cmap::closure_glyphs; symbol-encoded fonts (PUA remap) are modelled but never produced by from_mappings"],
    assumptions=["Rust integer semantics as in coq/Lib/RustInt.v; Vec::sort on (char, GlyphId) = the unique ascending arrangement (total order, equal elements identical)",
                 "from_mappings hands create_format_12 strictly ascending char codes (proved: canon_asc), so its HashMap/dedup indirection is the identity and is not modelled",
                 "u32 overflow of prev_gid+1 for gid = u32::MAX is subsumed by create_format_4's assert on 16-bit gids (both panic)"],
    trusted_base=["write-fonts dump_table / read-fonts FontRead for the cmap header and array layout (only exercised; property C04)"],
)
