SPEC = dict(
    id="C04",
    bin="c04",
    coq_dir="C04",
    coq_pre_cmd="python3 translators/c04_extract.py",
    coq_targets=["C04/Proofs.vo", "C04/Gen.vo", "C04/Reflect.vo", "C04/Examples.vo", "C10/Model.vo", "C04/Codec.vo",
                 "C04/Merge.vo", "C04/MergeAll.vo", "C04/Union.vo", "C04/UnionProofs.vo", "C04/UnionAll.vo", "C04/Examples2.vo"],
    props=["C04/Props.v", "C04/PropsM.v"],
    allowed_axioms=[],
    level_text=("Unbounded Coq theorems about a schema DSL and generic table codec (scalars of any width, arrays of "
                "records counted by a field through a transform / constant / to end of data, version- and flag-gated fields, "
                "literal and writer-computed fields, offsets of width 2/3/4 to nested or opaque subtables, nullable or not): "
                "decode(encode v) = normalize v for every well-formed schema and valid value, recompiling the re-read value "
                "gives the same object, a gated field is present after reading iff the gate holds, a writer-computed count "
                "read back through the inverse transform equals the array length.  Per table: translators/c04_extract.py "
                "extracts the reader's field sequence from read-fonts/generated and the writer's from write-fonts/generated "
                "independently on every run (203 type pairs) and a vm_compute theorem checks that each pair describes one "
                "schema (order, widths, gates, offset widths, nullability, count transform inverse); the 19 pairs whose count "
                "field is stored by the writer are enumerated by name in the statement.  The property's own wording is "
                "checked on the real code: every ownable top-level table of every font of font-test-data (+ every glyph) and "
                "~200 hand-built values go through to_owned_table / dump_table / read / == / dump_table again."),
    level_note=("Partial for hand-written code: compute_* expressions, custom FontWrite/FontRead impls (glyf, gvar, name strings, "
                "ValueRecord, PackedDeltas...), FromObjRef conversions and byte-level offset resolution (C05) are covered by the "
                "implementation oracle only. The link 'encode(merge R W) = encode W, decode(merge R W) = decode R' is PROVED (round 7, "
                "coq/C04/Merge.v; encode under the decidable side condition wref W, checked by vm_compute on all 203 writers), so the "
                "round trip is stated directly on the extracted halves W_T / R_T that the correspondence shards evaluate against the "
                "real bytes / real getters (c04_extracted_roundtrip, instantiated on all pairs: c04_all_pairs_extracted_roundtrip). "
                "14 of the 21 generated format enums are extracted as tagged unions (read `match format` arms + FORMAT constants / write "
                "`match self` arms) with an unbounded union round trip (c04_union_roundtrip, c04_all_unions_roundtrip). "
                "The shards cover 21 of the 203 pairs and 3 of the 14 unions with random values; the others are tied by the extraction + oracle only."),
    technique="Coq proof (nested induction over schemas) + reflection over schemas extracted from both generated halves + vm_compute correspondence + implementation-only round-trip oracle over the font corpus",
    modelled=["write-fonts/generated/*.rs FontWrite::write_into of 203 types (extracted, not hand-written): field order, widths, literals, array_len / plus_one / 2*array_len counts, version and flag gates, offset widths, nullability",
              "read-fonts/generated/*.rs FontRead::read + Marker byte ranges + typed offset getters of the same 203 types (extracted): order, widths, count transforms, gates",
              "write-fonts/src/write.rs TableWriter::{write_slice, write_offset}, TableData::add_offset placeholder; offsets.rs OffsetMarker / NullableOffsetMarker write_into",
              "font-types/src/version.rs Compatible for MajorMinor / Version16Dot16 / u16; read-fonts transforms::{subtract, add, half}",
              "14 generated format enums (AnchorTable, AxisValue, BaseCoord, CaretValue, ChainedSequenceContext, ClassDef, ClipBox, CmapSubtable, Condition, CoverageTable, CustomCharset, FdSelect, SequenceContext, SingleSubst): read-fonts `FontRead::read` (`let format = data.read_at(0)`, `match format { <T>Marker::FORMAT => .. }`, FORMAT constants) and write-fonts `FontWrite::write_into` (`match self`) extracted as UR_<E> / UW_<E>; model coq/C04/Union.v encode_union / decode_union"],
    not_covered=["134 generated types outside the DSL (explicit `skipped` list in coq/C04/Gen.v with reasons: read-only tables, readers needing external args, 7 format enums with a variant outside the DSL / a non-standard arm, ComputeSize / VarLenArray records, hand-written counts): implementation oracle only",
                 "hand-written compute_* methods, custom FontWrite/FontRead impls, FromObjRef/FromTableRef conversions: implementation oracle only",
                 "byte-level offset resolution: decode works on the object graph (child found at the offset = C05's Resolves); end-of-data arrays followed by other data are compared on the written prefix in the oracle (cmap format 4)",
                 "correspondence shards (real dump_table bytes vs encode W_T, real getters vs decode R_T) cover 21 of the 203 extracted pairs (9 + 12 added in round 7, 4 of them with offsets: own-field bytes with 0xFF placeholders + child bytes at the real offset); offset VALUES (where the child lands) are C05's"],
    assumptions=["a scalar's value is its raw big-endian unsigned integer; signed / fixed-point interpretation is C15's",
                 "offset resolution is abstract: the serialized child is found at the written offset (theorem of C05)"],
    trusted_base=["translators/c04_extract.py (regular-expression based extraction from rustfmt-formatted generated code; aborts on statement shapes it was not taught)"],
)
