SPEC = dict(
    id="C01L",
    bin="c01l",
    coq_dir="C01",
    props=["C01/LayoutProps.v"],
    coq_targets=["C01/LayoutProofs.vo", "C01/LayoutExamples.vo"],
    coq_pre_cmd="python3 translators/layout_extract.py",
    allowed_axioms=[],
    level_text="temporary spec for developing the C01 layout sub-proof",
    level_note="temporary",
    modelled=["read-fonts/generated/*.rs table readers (via translators/layout_extract.py)"],
    not_covered=[],
    assumptions=[],
)
