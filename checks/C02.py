SPEC = dict(
    id="C02",
    bin="c02",
    coq_dir="C02",
    coq_targets=["C02/Proofs.vo", "C02/IftProofs.vo", "C02/Examples.vo", "C02/VsProofs.vo", "C02/VsExamples.vo"],
    props=["C02/Props.v", "C02/IftProps.v", "C02/VsProps.v"],
    allowed_axioms=[],
    harness_timeout=2400,
    level_text=("Partial by design: totality of ~45 kLoC is not a theorem here. What is proved (Coq, unbounded, no axioms) is that each "
                "GUARD that makes skrifa's glyph loading total does its job for every input it can see, the guarded computation being an "
                "adversarial oracle: ValueStack (all 14 operations, both pedantic modes, arbitrary closures, every capacity) never panics and "
                "keeps 0 <= len <= capacity, and EVERY method (push, push_inline_operands, peek, pop, pop_usize, pop_count_checked, apply_unary/binary, clear, dup, swap, "
                "copy_index, move_index, roll) refines a plain-list specification with exactly the Rust error cases, whole op sequences being observationally a list machine "
                "(copy_index/move_index as of /repo 5407d30, FreeType Ins_CINDEX/Ins_MINDEX: the index is popped first; outside 1..=depth it is Err InvalidStackValue(index) in pedantic mode and "
                "push 0 / no-op otherwise; inside, r[index-1] is copied / rotated to the top; the pedantic flag changes the outcome EXACTLY when the stack is empty or the index is outside 1..=depth); Decycler<_,D> never indexes out of [0,D), is exactly a "
                "stack of node ids with the depth cap and the depth/2 test, cuts every Enter-only descent longer than D and every eventually "
                "periodic descent (prefix P, period L) within 2(P/L+1)L <= 2(P+L) Enters; CallStack is total with depth in [0,32]; the "
                "interpreter run loop performs at most MAX_RUN_INSTRUCTIONS+1 dispatches for EVERY instruction oracle, never panics, keeps the "
                "call depth <= 32 and the loop-budget counters <= limit; composite loading needs at most limit+2 frames on EVERY component map "
                "and reports RecursionLimitExceeded on maps without finite descent. Round 2 (IFT patch-map decoding guards): the format-2 "
                "entry loop never panics for EVERY sparse-bit-set decoder that returns no more data than it got, needs at most #bytes+1 turns whatever "
                "entry_count says, and a success means exactly entry_count entries each consuming >= 1 byte, ids in u32 (i64 id arithmetic cannot overflow); "
                "the format-1 glyph-map / feature-map intersection (record walk for FeatureSet::All and ::Set, index*field_width*2, first_new.checked_add(i), "
                "entry_map_data[byte_index..]) never panics for every table and subset definition, because the up-front entry_records_size check uses the same "
                "field_width as the indexing. The models are tied to the code on every run: ~2400 "
                "generated op sequences / crafted fpgm+prep programs (incl. two million-instruction runs that pin the +1 slack and the budget "
                "formula through the reported pc) / composite graphs are executed on the real code and on the model (vm_compute). Everything "
                "else of the property is TESTED only: an implementation-only totality search runs every public skrifa query, draw (sizes incl. "
                "0/NaN/inf, wrong-length coords, every hinting engine/target, scratch buffers of size 0..required+8 at odd alignment), "
                "ColorGlyph paint/bounding_box and the IFT client (select_next_patches/apply with hostile decoders and mutated patches) on all "
                "font-test-data fonts under ~100k structure-aware mutations, in watchdogged sub-processes so that stack exhaustion, aborts and "
                "runaway loops are observed as failures."),
    level_note=("Trusted: Coq kernel; the hand-written models in coq/C02/Model.v (agreement with the Rust code is checked by correspondence, not proved); "
                "the abstraction of instructions to their control-flow effect in the run-loop machine (the oracle may do anything else); the harness. "
                "The 200-odd opcode bodies, CFF, autohinter, metrics/charmap/string glue and the IFT client are covered by the totality search only."),
    technique="Coq proofs (invariants, refinement to list/stack specifications, fuel-adequacy) over hand-written Gallina models + vm_compute correspondence + watchdogged implementation-only fuzzing",
    modelled=["skrifa/src/decycler.rs: Decycler::{new,enter}, DecyclerGuard::drop, verif_drive_decycler",
              "skrifa/src/outline/glyf/hint/value_stack.rs: every method of ValueStack (model vs_*; list-level specification spec_* in coq/C02/VsProofs.v proved equal to the model for every stack and argument)",
              "skrifa/src/outline/glyf/hint/call_stack.rs: CallStack::{push,peek,pop,clear}",
              "skrifa/src/outline/glyf/hint/engine/dispatch.rs: Engine::run (MAX_RUN_INSTRUCTIONS); engine/mod.rs: LoopBudget; engine/control_flow.rs: do_jump; engine/definition.rs: op_call/op_loopcall/op_fdef/op_endf, do_def scan; hint/program.rs: enter/leave; hint/definition.rs: DefinitionMap::{allocate,get} (concrete oracle instance used by the shards)",
              "skrifa/src/outline/glyf/mod.rs: Outlines::outline_rec / Scaler::load + load_composite recursion guard (GLYF_COMPOSITE_RECURSION_LIMIT)",
              "incremental-font-transfer/src/patchmap.rs: add_intersecting_format1_patches (intersect_format1_glyph_map_inner, intersect_format1_feature_map incl. field_width / entry_records_size / merge_intersecting_entries / is_entry_applied); decode_format2_entries, decode_format2_entry (EntryData field walk, child index / design space / id / patch format checks), compute_format2_new_entry_index, decode_format2_codepoints (sparse bit set = coq/C14 SbsModel.decode in the shards, arbitrary oracle in the theorems)"],
    not_covered=["ValueStack: what the cells beyond `len` hold after an operation is not specified at list level (the model's whole backing store is compared with the real one by correspondence only)",
                 "work bound of composite loading: the guard bounds depth, not the number of visits (exponential in fan-out: reported finding)",
                 "TrueType opcode bodies other than control flow, zone/point/CVT index checks, CFF charstring evaluator and hinter, autohinter, COLR traversal, metrics/charmap/string glue: totality search only",
                 "memory carving alloc_slice (proved by C12): exhaustive buffer length x misalignment sweep only; IFT glyph-keyed / table-keyed patch application (C18), format-2 string ids, EntryIntersectionCache recursion (finding: unbounded), patch selection (C19): totality search only",
                 "inner scan loops of op_if/op_else/do_def (bounded by bytecode length): modelled only inside the concrete oracle (do_def), not stated as theorems"],
    assumptions=["Rust semantics in the overflow-checks + debug-assertions profile (usize arithmetic panics on overflow, slice indexing panics out of range, copy_within range checks)",
                 "slices have length <= isize::MAX (hypotheses `zlen store <= isize_max`, `vop_ok`)",
                 "loop-call counts handed to LoopBudget are positive i32 (guaranteed by op_loopcall's `count > 0` test; hypothesis count_ok)",
                 "LoopBudget limit + 2^31 <= usize::MAX (c02_loop_limit_ok: holds for every u32 cvt length / point count on 64-bit targets)"],
    trusted_base=["watchdog: a fuzz task that exceeds 20 s (quick) / 40 s (thorough) wall clock or kills its worker process is reported as an oracle failure"],
)
