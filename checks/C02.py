SPEC = dict(
    id="C02",
    bin="c02",
    coq_dir="C02",
    coq_targets=["C02/Proofs.vo", "C02/Examples.vo"],
    allowed_axioms=[],
    harness_timeout=1500,
    level_text="(filled in below)",
    level_note="",
    technique="",
    modelled=[],
    not_covered=[],
    assumptions=[],
)
