SPEC = dict(
    id="C06",
    bin="c06",
    coq_dir="C06",
    coq_targets=["C06/Proofs.vo", "C06/Examples.vo"],
    allowed_axioms=[],
    level_text=("placeholder"),
    level_note=("placeholder"),
    technique="Coq proof (induction over association lists / byte lists, binary-search invariant, checksum additivity) over a hand-written Gallina model of FontBuilder + FontRef, tied to write-fonts/read-fonts by whole-file byte-exact vm_compute correspondence",
    modelled=[],
    not_covered=[],
    assumptions=[],
)
