SPEC = dict(
    id="C06",
    bin="c06",
    coq_dir="C06",
    coq_targets=["C06/Final.vo", "C06/Examples.vo"],
    allowed_axioms=[],
    level_text=("Unbounded Coq theorems (all tag->bytes maps with at most 4095 tables and < 4 GiB of padded data — the size "
                "preconditions the real build() needs, the first shown sharp —, all add_raw / copy_missing_tables sequences) about an "
                "executable model of FontBuilder::{add_raw,add_table,copy_missing_tables,ordered_tags,build}, compute_checksum, SearchRange and of "
                "the reader FontRef::{new,table_data}: the built file opens with sfnt version 0x00010000; its directory lists exactly the "
                "supplied tags strictly ascending with the floor-log2 search fields; table_data returns exactly the supplied bytes "
                "(head >= 12 bytes: equal outside bytes 8..12) and None for absent tags; offsets are 4-aligned, tables in bounds, zero "
                "padded, laid out back to back in ordered_tags() order; each record checksum is the checksum of its table (head with the "
                "adjustment zeroed); with a head of >= 12 bytes the whole-file checksum is 0xB1B0AFBA; any two insertion sequences "
                "denoting the same map build identical bytes; copy_missing_tables never overrides a supplied table; an add_table whose compilation fails leaves the builder unchanged (no phantom tag, later copies not masked); build() drains the builder completely (zero-length tables too), so a reused builder behaves like a fresh one. The model is tied to "
                "the code on every run: ~2800 generated op sequences (add_raw / add_table of compiling and non-compiling typed tables / copy_missing_tables / intermediate build() with reuse of the same builder, interleaved; tags from a registry of sfnt tags, the tag literals of the source under test and their look-alikes) / malformed files are run through the real write-fonts and "
                "read-fonts and the model is evaluated on them by vm_compute, comparing the whole file byte for byte plus every reader "
                "answer; an independent implementation-only oracle re-checks the property text on ~4100 real builds incl. 70 000-byte "
                "tables and up to 4095 tables."),
    level_note=("Trusted: Coq kernel; the hand-written model coq/C06/Model.v (agreement with the Rust code is checked by correspondence, "
                "not proved); the harness generator. SearchRange's f64 log2 is modelled by Z.log2 (tested for every table count the "
                "sweep covers, not proved). Build inputs beyond 4 GiB are outside the theorems' precondition and untested."),
    technique="Coq proof (induction over sorted association lists / byte lists, binary-search loop invariant, checksum additivity mod 2^32) over a hand-written Gallina model of FontBuilder + FontRef, tied to write-fonts/read-fonts by whole-file byte-exact vm_compute correspondence",
    modelled=["write-fonts/src/font_builder.rs: FontBuilder::{add_raw, add_table (dump_table outcome as input), copy_missing_tables, contains, ordered_tags, build}, round4, checksum_and_padding, TableDirectory::from_table_records, RECOMMENDED_TABLE_ORDER_TTF/CFF",
              "write-fonts/src/util.rs: SearchRange::compute (integer semantics; u16 conversions as panics)",
              "write-fonts/generated/generated_font.rs: TableDirectory / TableRecord FontWrite::write_into",
              "read-fonts/src/tables.rs: compute_checksum",
              "read-fonts/generated/font.rs: TableDirectory::read, sfnt_version/num_tables/search_range/entry_selector/range_shift/table_records, TableRecord",
              "read-fonts/src/lib.rs: FontRef::new, with_table_directory, table_data (core::slice::binary_search_by, Offset32::non_null, FontData::slice)"],
    not_covered=["the compilation inside FontBuilder::add_table (dump_table: validation + packing, C04/C05) — only its Ok(bytes)/Err outcome enters the model; TTC collections (FileRef, FontRef::from_index, TTCHeader)",
                 "SearchRange::compute's floating-point log2: modelled as Z.log2; tested by the table-count sweep only",
                 "u32 position overflow (>= 4 GiB of table data): the model predicts a panic, not exercised against the code",
                 "binary search on unsorted / duplicate directories: correspondence only (malformed stream), no theorem",
                 "FontBuilder::build panics from 4096 tables on (SearchRange u16 conversion): treated as a size precondition (c06_build_precondition_sharp), recorded in evidence as build_with_4096_tables; see notes/C06.md"],
    assumptions=["the tags font_builder.rs treats specially are the 4-byte literals of its non-test source (extracted at run time from FV_REPO and required to equal the model's special_tags)",
                 "Rust integer semantics as in coq/Lib/RustInt.v; BTreeMap<Tag,_> behaves as a finite map ordered by the tag's big-endian u32 value",
                 "core::slice::binary_search_by is the branch-free loop of Rust >= 1.82 (as modelled in bs_loop)",
                 "usize is 64 bits (checked_add / checked_mul on u32-sized operands never overflow)"],
)
