SPEC = dict(
    id="C03",
    bin="c03",
    crate_dir="harness_ft",
    coq_dir="C03",
    coq_targets=["C03/Proofs.vo", "C03/Examples.vo"],
    allowed_axioms=[],
    level_text=("PARTIAL. The oracle of this property is a C library (FreeType 2.12.1 as vendored by freetype-sys 0.17 and linked by "
                "/repo/fauntlet), so only the arithmetic kernels that both sides must share carry theorems. Proved in Coq, unbounded (all i32 "
                "operands, all round states), between two independently written executable models (skrifa side transcribed from "
                "hint/math.rs, hint/round.rs, font-types Fixed/F26Dot6; FreeType side transcribed from ftcalc.c/ftcalc.h/ftobjs.h/ttinterp.c, "
                "LP64 x86_64 configuration): FT_MulFix (= the unhinted scale step coord*scale) equal for all operands incl. wrap-around; "
                "FT_DivFix / FT_MulDiv equal modulo 2^32 for all operands and equal whenever FreeType's 64-bit result fits an i32 "
                "(refuted beyond: witnesses); FT_MulDiv_No_Round, and RoundState::round vs Round_To_Grid/Half_Grid/Double_Grid/Down/Up/Super/"
                "Super_45/None (compensation 0): skrifa's kernels (explicitly wrapping i32 arithmetic since /repo fb7fa4b — the wrapping "
                "reading is the model) equal FreeType's 64-bit arithmetic on the wrap-free domain (no intermediate i32 result wraps), which "
                "contains |d| <= 2^31-128 for the grid modes, all state components <= 2^28 for Super/Super45, and every mul_div_no_round "
                "triple without i32::MIN whose quotient fits; beyond it they diverge (refuted witnesses at the i32 limits, replayed on the "
                "real kernels); the MIAP[1] control-value cut-in decision equal whenever cvt - position is an i32 (tied through drawn outlines of the synthetic font on both interpreters); TT_MulFix14 equal for all "
                "operands; F26Dot6::round = FT_PIX_ROUND, Fixed::floor = FT_FloorFix, Fixed::round vs FT_RoundFix (refuted on negative ties). "
                "Both models are tied to the real code on every run: skrifa kernels through the verif hooks and FreeType through FFI "
                "(FT_MulFix/FT_DivFix/FT_MulDiv/FT_RoundFix/FT_CeilFix/FT_FloorFix) on ~65k boundary-dense/random tuples evaluated with vm_compute. "
                "NOT proved (tested only): everything between the kernels — graphics state, the ~200 opcode bodies, composite assembly, "
                "the CFF charstring evaluator and stem hinter, the path normalisation; FreeType's unexported Round_*/TT_MulFix14/"
                "FT_MulDiv_No_Round are tied to their model only by reading the C source. The property itself is checked by an "
                "implementation-only differential grid: every static font of font-test-data plus a 613-glyph synthetic font of instruction "
                "micro-programs (MIAP/MIRP/MDRP/ALIGNRP/ISECT/IP/SHP/DELTA/twilight/CALL/... at, above and below the cut-in thresholds; CINDEX/MINDEX at the boundary indices with the whole stack made visible) x every "
                "glyph x ppem {unscaled, 4..320, 384, 512, 768, 1000, 2048, +-1 around each font's MPPEM comparison constants} (thorough: 2..512 + "
                "larger) x {unhinted, interpreter x {mono, normal, light, lcd, vertical lcd}} through "
                "fauntlet's own FreeType/skrifa instances and RegularizingPen, paths and advances compared exactly; the hinted comparison is "
                "repeated through REUSED skrifa HintingInstances (reconfigure after histories at sizes beyond every MPPEM threshold, other "
                "targets, other fonts)."),
    level_note=("Trusted: Coq kernel; the two hand-written models in coq/C03/Model.v (agreement with the Rust code and with the exported "
                "FreeType functions is checked on every run, not proved; the unexported FreeType functions are transcribed by hand from the "
                "vendored C sources); FreeType's configuration (LP64, FT_MulFix_x86_64 inline) is detected at run time and recorded in the "
                "evidence ('witnesses.ft_mulfix_variant'); fauntlet's instance setup and RegularizingPen are used unchanged. The grid is a "
                "test, not a theorem. Oracle failures of the grid are reported once per (font, glyph, mode) with key "
                "'<font>:<glyph>:*:<mode>' and the list of failing ppem sizes; the per-instance keys '<font>:<glyph>:<ppem>:<mode>' are in "
                "the evidence under grid_mismatch_keys."),
    technique=("Coq proof (lia with div/mod equations, bit-mask lemmas) of equality between a skrifa-side and a FreeType-side Gallina model "
               "of each shared fixed-point kernel + two-sided vm_compute correspondence (skrifa hooks and FreeType FFI) + implementation-only "
               "differential grid skrifa vs FreeType over the frozen font corpus"),
    modelled=["skrifa/src/outline/glyf/hint/math.rs: floor, round, ceil, floor_pad, round_pad, mul, div, mul_div, mul_div_no_round, mul14",
              "skrifa/src/outline/glyf/hint/round.rs: RoundState::round (all eight RoundMode arms)",
              "skrifa/src/outline/glyf/mod.rs: Outlines::compute_scale (the F26Dot6 division), FreeTypeScaler scale step F26Dot6 * scale, phantom point F26Dot6::round",
              "font-types/src/fixed.rs: Fixed/F26Dot6 Mul, Div, mul_div, round, floor (via coq/C15/Model.v)",
              "freetype2/src/base/ftcalc.c: FT_MulFix (x86_64 inline and portable body), FT_DivFix, FT_MulDiv, FT_MulDiv_No_Round, FT_RoundFix, FT_CeilFix, FT_FloorFix; ftcalc.h ADD_LONG/SUB_LONG/NEG_LONG; ftobjs.h FT_PIX_*/FT_PAD_*",
              "freetype2/src/truetype/ttinterp.c: TT_MulFix14 (long long variant), Round_None, Round_To_Grid, Round_To_Half_Grid, Round_Down_To_Grid, Round_Up_To_Grid, Round_To_Double_Grid, Round_Super, Round_Super_45"],
    not_covered=["TrueType interpreter opcode semantics, graphics state, composite glyph assembly, hdmx handling: differential grid only",
                 "CFF/CFF2 charstring evaluation and the PostScript stem hinter (skrifa/src/outline/cff): differential grid only",
                 "math::normalize14 (Newton iteration) and FT_Vector_NormLen: not modelled",
                 "engine compensation != 0 in Round_* (skrifa fixes it to 0; FreeType's compensations are 0 for all three colours too)",
                 "variable fonts (outside this property's quantifier); auto-hinter (other property)",
                 "fonts outside font-test-data"],
    assumptions=["Rust integer semantics as in coq/Lib/RustInt.v; the hinting kernels wrap explicitly (wrapping_add/neg/...), so one model serves every build profile; the trapping evaluation [st = true] only defines the wrap-free domain",
                 "C integer semantics of the GCC/clang LP64 x86_64 build: long = 64 bits, int = 32 bits, unsigned arithmetic wraps, unsigned->signed conversion is modular, >> on signed values is arithmetic",
                 "FreeType 2.12.1 sources as vendored by freetype-sys 0.17.0 are what is linked (checked indirectly: six exported functions are compared with their model on every run)"],
    trusted_base=["FreeType itself is the specification of this property: nothing is proved about FreeType beyond the eight exported/unexported kernels listed under `modelled`"],
)
