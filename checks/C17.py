SPEC = dict(
    id="C17",
    bin="c17",
    coq_dir="C17",
    coq_targets=["C17/Proofs.vo", "C17/Closure.vo", "C17/Idempotent.vo", "C17/IndexMap.vo", "C17/Gvar.vo", "C17/Examples.vo",
                 "C17/PreservesAll.vo", "C17/IdempotentRetain.vo", "C17/IndexMapMax.vo", "C17/Loca.vo", "C17/LocaPlan.vo",
                 "C17/ExamplesPA.vo", "C17/ExamplesIR.vo", "C17/ExamplesIM.vo", "C17/ExamplesLoca.vo"],
    allowed_axioms=[],
    level_text=("Unbounded Coq theorems about an executable model of klippa's subsetting plan and per-glyph tables over an "
                "abstract TrueType font (glyph kinds with component lists, hmtx long/short arrays, cmap pairs, UVS triples, COLR "
                "reach oracle): the retained set contains .notdef, every valid requested id and the glyph of every requested "
                "character; renumbering by rank is a monotone bijection onto [0, numGlyphs) and the identity under RETAIN_GIDS; "
                "every kept glyph has the same advance and side bearing under its new id INCLUDING the numberOfHMetrics trimming "
                "loop and zero-filled gaps; the subset's character list is exactly {(c, map g)} for requested c or g; a kept "
                "glyph's record is the original with component ids renamed; the retained set is the least component-closed set containing the "
                "roots (no junk); subsetting to everything is the identity renumbering; subsetting the subset again with the same request "
                "keeps every glyph with the identity renumbering (rank mode, no COLR/UVS, no truncation), and under RETAIN_GIDS keeps "
                "exactly the same ids with the identity renumbering (c17_subset_idempotent_retain_gids). ONE combined theorem "
                "(c17_subset_preserves_all) states all of it end to end for both RETAIN_GIDS settings: table shapes, and for every kept "
                "glyph its new id, advance / side bearing on both sides of the long-metrics / short-tail boundary, its record with "
                "renamed components, and for every kept code point the renumbered glyph and nothing else. "
                "loca (glyf_loca.rs): the short format is chosen iff the padded total is below 0x1FFFF, the stored offsets read back are "
                "the prefix sums of the padded glyph lengths, the range read back is exactly where the glyph was embedded (short "
                "format; long format only for even lengths - refuted otherwise, known finding), and the u16 running offset panics "
                "exactly in the known-finding band 0x10000..0x1FFFE (c17_loca_*); the model's loca is compared with klippa's loca "
                "bytes and head.indexToLocFormat in every shard case, including the cases where the two known loca defects fire. "
                "HVAR/VVAR: IndexMapSubsetPlan::new provably records a maximum covering every inner index it later remaps "
                "(c17_indexmap_max_covers), which closes the hypothesis of the index-map round trip. "
                "The retained set is component-closed under the explicit hypotheses the code needs (component ids inside the font, "
                "nesting at most 65 levels, operation budget >= number of glyphs); without them the statement is FALSE of the faithful "
                "model (closure stops at nesting depth 64 / an operation budget): proved refuted with witnesses that reproduce on the "
                "real code (finding F-7). The model is tied "
                "to klippa on every run by vm_compute on ~5.5k (font, request, flags) cases over all glyf fonts of the repository "
                "corpus plus synthetic boundary fonts. Outline / advance / side-bearing equality at every size and variation "
                "location, cmap of the re-opened subset, subset-of-subset and subset-to-everything stability are checked on the "
                "implementation only (skrifa), not proved — partial for those."),
    level_note=("Trusted: Coq kernel; the hand-written model coq/C17/Model.v (agreement with klippa checked, not proved); the "
                "harness's abstraction of a font (hashes stand for glyph contents). Not modelled: serializer byte packing "
                "(loca/glyf offsets, cmap4/12/14 encoders), gvar/HVAR/COLR/layout subsetters, hint stripping - covered by the "
                "implementation-only oracle, which currently reports several genuine defects there (see notes/C17.md). "
                "subset_idempotent is proved for both renumberings without COLR/UVS closures; colour / UVS variants are tested only. "
                "The per-glyph byte lengths fed to the loca model are computed by the harness from the ORIGINAL font's raw glyf bytes "
                "(own implementation of the trimming walk, independent of klippa); agreement of the whole loca table checks them too; a "
                "regular generator family of simple glyphs written with repeated flags (1..300 points x coordinate byte widths x padding) "
                "exercises that walk on both sides of every u8 boundary (finding fixed by /repo 84fae1d)."),
    technique="Coq proof (induction over sorted lists / the trimming loop / the closure recursion) over hand-written Gallina model + vm_compute correspondence with klippa + skrifa-based implementation oracle",
    modelled=["klippa/src/lib.rs: Plan::new (unicode_to_new_gid_list rewrite), populate_unicodes_to_retain (both branches), populate_gids_to_retain (.notdef, cmap14 UVS closure, COLR closure as oracle, glyf_closure_glyphs with operation budget and MAX_NESTING_LEVEL), remove_invalid_gids, create_old_gid_to_new_gid_map (rank / RETAIN_GIDS)",
              "klippa/src/hmtx.rs: subset (bounds check, long/short placement, zero fill), compute_new_num_h_metrics, get_new_gid_advance; read-fonts hmtx advance/side_bearing lookups",
              "klippa/src/maxp.rs: numGlyphs; klippa/src/glyf_loca.rs: per-glyph record (empty / simple / composite with component ids rewritten through glyph_map, .notdef outline flag, unmapped component => empty glyph, unreadable glyph => table dropped)",
              "klippa/src/hvar.rs (shared with vvar.rs): IndexMapSubsetPlan::new / remap, HvarVvarSubsetPlan::new, serialize_index_maps; klippa/src/variations.rs DeltaSetIndexMap::subset (entry format byte, width, packing) - compared byte for byte with the subset's HVAR/VVAR index maps",
              "klippa/src/gvar.rs: the offset-format decision (size summed as the code does), GvarOffset::stored_value for both widths and the offsets array incl. RETAIN_GIDS gaps and the skipped .notdef - compared with the subset's real gvar flags word and offsets array",
              "klippa/src/glyf_loca.rs: Glyf::subset's loca format decision (max_offset < 0x1FFFF), padded_size, both loops of write_glyf_loca (gap filling, u16 / u32 running offset incl. the `as u16` wrap and the overflow panic, offset >> 1), where each glyph's bytes are embedded (pad byte in the short branch only), subset_head's indexToLocFormat - compared with the subset's raw loca entries and head on every case, incl. the known-defect cases (OLocaOnly)",
              "klippa/src/cmap.rs: at the level of the (char, new gid) list and the encoding-record prerequisites; the format-4 writer (to_ranges / commit_current_range / glyphIdArray) is not modelled but its OUTPUT, read back through Cmap4 directly, is compared case by case with the predicted list"],
    not_covered=["serialize.rs packing, cmap4/cmap12/cmap14 byte encoders, the glyph BYTES written by subset_simple_glyph / subset_composite_glyph (only their lengths enter the loca model, computed independently by the harness): implementation-only oracle (finds C17:cmap4-id-range-offset-shared-base, C17:cmap12-empty-subtable-invalid-group; C17:glyf-short-loca-u16-offset-overflow and C17:glyf-long-loca-unpadded-glyph-data are now also reproduced by the model: c17_loca_short_overflow_panics, c17_loca_long_unpadded_refuted)",
                 "u32 wrap of `padded_size(len) as u32` for a single glyph of 2^32-1 bytes (impossible inside an sfnt) is not modelled; a max_offset total above u32::MAX is modelled as a panic",
                 "c17_indexmap_max_covers needs outer indexes below the ItemVariationData count (otherwise the plan loop breaks early while remap continues) and an explicit index map; the no-advance-map plan is reproduced by the model but not covered by the theorem",
                 "gvar data copy (oracle: byte-for-byte equality per kept glyph) / ItemVariationStore row subsetting / COLR / CPAL / layout / name / OS2 / post subsetters and hint stripping: implementation-only oracle (finds C17:hvar-dropped, C17:colr-dropped)",
                 "draw_commutes (abstract recursive draw) is not proved; outline/metric equality at sizes x locations and subset-of-subset stability of the real output are tested on the implementation",
                 "when a known loca-writer defect fires (panic / long format above 64 KiB of kept glyph data) only the loca prediction is compared (OLocaOnly); model correspondence is restricted to fonts with <= 1500 glyphs / <= 4000 cmap entries"],
    assumptions=["cmap of the font is a function (NoDup of characters) for c17_cmap_exact / c17_closure_contains_requested / c17_subset_all_identity",
                 "num_output_glyphs <= 65535 for c17_hmtx_preserved (always true: glyph ids are 16-bit in glyf fonts)",
                 "the COLR closure is an oracle (per-glyph reach lists computed by read-fonts' own closure functions)"],
    trusted_base=["skrifa (OutlineGlyph::draw unhinted, GlyphMetrics, charmap) as the observer in the implementation-only oracle"],
)
