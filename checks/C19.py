SPEC = dict(
    id="C19",
    bin="c19",
    coq_dir="C19",
    coq_targets=["C19/Proofs.vo", "C19/Examples.vo", "C19/Cases.vo", "C19/Fmt1Spec.vo", "C19/Proofs2.vo", "C19/Fmt1Proofs.vo", "C19/Dec2Proofs.vo"],
    props=["C19/Props.v", "C19/Props2.v"],
    allowed_axioms=[],
    level_text=("Unbounded Coq theorems (all decoded mapping tables x all subset definitions x all applied-bit states) about an "
                "executable model of IFT patch selection: the intersection cache equals the specification's 'check entry intersection' "
                "incl. conjunctive/disjunctive children and empty-means-wildcard; the offered set is exactly the un-applied, un-ignored, "
                "intersecting entries, is monotone in the definition and contained in the set offered for SubsetDefinition::all(); a selected "
                "group has no duplicate URI, at most one invalidating patch per mapping table, nothing beside a fully invalidating patch, and "
                "each scope's invalidating patch has a maximal intersection with the earliest entry order among equals (max_by_key's "
                "last-maximum with the reversed entry order); every successful apply round moves a URI from Pending to Applied and never back, "
                "so an extension run has at most #pending successful rounds. The model is tied to the code on every run: real format-2 "
                "IFT/IFTX tables are built byte by byte, the real intersecting_patches / PatchGroup::select_next_patches / apply_next_patches "
                "run on them, and coqc evaluates the model on the same decoded entries (candidates incl. intersection infos, URI lists, "
                "patch_data after each round). Deepening: format-1 tables are in the model from the table bytes (glyph map, feature map stride/width, applied bitmap, "
                "invalidating-format rule) with format1_entries_match_spec against the specification; format-2 entries are decoded from the real bytes by a "
                "Gallina decoder (decode_total, decode_encode) that must reproduce the entries every comparison uses; per-table results are independent."),
    level_note=("Trusted: Coq kernel; the hand-written models coq/C19/{Model,Dec2,Fmt1}.v (agreement with the Rust code is checked by correspondence, not proved); "
                "the harness encoder/generator; C14's sparse-bit-set decoder model (SbsModel.decode) used inside the format-2 byte decoder. "
                "URI template expansion is not modelled (URIs are ordered abstract ids; the harness compares uri_string() with its own expansion). "
                "The step from table bytes to the abstract tables of the theorems (header field extraction) is tied by correspondence only. "
                "The real extension loop runs with no-op table-keyed and no-op glyph-keyed patches (every round must be Err or move a URI Pending->Applied); patch content is C18."),
    technique="Coq proof (list/Z reasoning, strong induction over entry index, lexicographic order lemmas) over hand-written Gallina model + vm_compute correspondence with incremental-font-transfer",
    modelled=["incremental-font-transfer/src/patchmap.rs: Entry::intersects, Entry::design_space_intersects, EntryIntersectionCache::{intersects, compute_intersection, all_children_intersect, some_children_intersect}, add_intersecting_format2_patches, intersecting_patches, SubsetDefinition::{all, intersection, design_space_intersection}, IntersectionInfo::{from_subset, design_space_size} and its Ord, decode_format2_entry's child-index and segment checks",
              "incremental-font-transfer/src/patch_group.rs: PatchGroup::{select_next_patches, select_next_patches_from_candidates, select_invalidating_candidate, uris, apply_next_patches_with_decoder (bookkeeping)}, GroupingByInvalidation::group_patches",
              "incremental-font-transfer/src/patchmap.rs (format 1): add_intersecting_format1_patches, intersect_format1_glyph_map(_inner), intersect_format1_feature_map, merge_intersecting_entries, is_invalidating_format; read-fonts ift.rs: U8Or16, is_entry_applied, entry_records_size, PatchMapFormat1/GlyphMap/FeatureMap/EntryMapRecord readers",
              "incremental-font-transfer/src/patchmap.rs (format 2 bytes): decode_format2_entries, decode_format2_entry, format2_new_entry_id, compute_format2_new_entry_index, decode_format2_codepoints, PatchFormat::from_format_number; read-fonts PatchMapFormat2/EntryData readers",
              "read-fonts/src/collections/range_set.rs: canonical form of RangeSet<Fixed> (insert/intersection), as used for intersection sizes"],
    not_covered=["header-level readers (PatchMapFormat1/2, GlyphMap, FeatureMap field extraction) are modelled (Dec2.v, Fmt1.v) and tied by correspondence but their relation to the abstract tables is not proved; decode_encode takes the sparse-bit-set prefix round trip as a hypothesis (C14)",
                 "uri_templates.rs expansion: URIs are abstract ordered identifiers in the model; the harness compares uri_string() with its own expansion for the templates it uses",
                 "entry-side FeatureSet::All / DesignSpace::All / inverted codepoint sets (arms of Entry::intersects and SubsetDefinition::intersection that no decoded table reaches)",
                 "actual patch application (C18): the extension-loop model takes success of the patch application as a boolean; the real loop is run with no-op table-keyed patches only"],
    assumptions=["decoded entries are as the harness encoded them (checked indirectly by the correspondence on results)",
                 "URI order in the model = byte order of the expanded URI strings (BTreeMap<String,_>)",
                 "mapping_wf (children refer to earlier entries, segments have start <= end, an axis is listed only with a segment) is what decode_format2_entry guarantees; c19_decodable_wf derives it from the model's decodability check"],
    trusted_base=["PatchUri's crate-private fields (source table, applied-bit index, intersection info) are read from its derived Debug output"],
)
