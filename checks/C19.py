SPEC = dict(
    id="C19",
    bin="c19",
    coq_dir="C19",
    coq_targets=["C19/Proofs.vo", "C19/Examples.vo"],
    allowed_axioms=[],
    level_text="(draft)",
    level_note="(draft)",
    technique="Coq proof over hand-written Gallina model + vm_compute correspondence",
    modelled=[],
    not_covered=[],
    assumptions=[],
)
