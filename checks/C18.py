SPEC = dict(
    id="C18",
    bin="c18",
    coq_dir="C18",
    coq_targets=["C18/Proofs.vo", "C18/Examples.vo", "C18/Runs2.vo", "C18/Grouping2.vo", "C18/Examples2.vo"],
    allowed_axioms=[],
    level_text=("Unbounded Coq theorems about an executable model of IFT patch application with the brotli decoder as an "
                "arbitrary argument function (call index, input, optional dictionary, max size -> error kind or bytes): "
                "table-keyed application yields exactly the decoder output of the first entry per tag (replacement without, diff with "
                "the base table as dictionary), dropped tables absent, every other table byte-identical, and a compatibility-id mismatch "
                "gives IncompatiblePatch whatever the decoder does; glyph-keyed application on the offset-array abstraction "
                "(glyf+loca short/long instance) gives every listed glyph the FIRST patch's data padded as the offset type requires and "
                "every other glyph its old bytes, offsets ascending/complete/representable, offset type changed only when the total does not "
                "fit (and then to the first available type that fits), every table other than glyf/loca/IFT/IFTX byte-identical, applied-bit "
                "update = one byte OR 1<<bit and independent of patch order; an error of apply_next_patches leaves the URI status map untouched "
                "for EVERY decoder behaviour, success flips exactly the applied URIs; glyph-keyed patches that agree on shared glyphs give the "
                "identical font in any permutation. The model is tied to the code on every run by evaluating it (vm_compute) on ~4800 calls of the "
                "real PatchGroup::apply_next_patches_with_decoder (all permutations of <=4 patches, all two-call groupings, decoder failing at every "
                "call index with every DecodeError kind, 26 kinds of malformed patch/font/status map, table-keyed drop/replace/diff/duplicates/damaged offsets). "
                "Round 7: literal run loop and glyph-by-glyph specification proved to succeed on exactly the same inputs with the same offsets/data (c18_run_loop_complete, c18_build_runs_eq_build_loop, c18_patch_offset_array_is_spec; error VALUES can differ, witness in Examples2.v); grouping independence of the generic offset array incl. gvar/CFF under equal offset type (c18_offset_array_grouping, c18_gvar_data_placement_slices); c18_loca_roundtrip. " 
                "Round 3: CFF/CFF2 charstrings INDEX modelled and covered by correspondence (offSize widening 1->2 inside the shards); any-partition/any-order independence, short-loca overflow = error, loca width = head format proved. Round 2: the model IS the run-by-run builder loop as coded (c18_run_loop_is_glyph_loop: whenever it succeeds it returns the glyph-by-glyph specification's result); gvar (short/long offsets, widening, flag byte, shared tuples, serializer capacity) is modelled and covered by correspondence; grouping independence (one call with ps1++ps2 = two calls) is proved for glyf/loca incl. the loca encode/decode round trip; c18_replace_ignores_base / c18_diff_uses_base pin the decoder's dictionary argument. The 131070-byte short-offset thresholds (glyf: rejection; gvar: widening) are checked on the implementation only."),
    level_note=("Trusted: Coq kernel; the hand-written model coq/C18/Model.v (agreement with incremental-font-transfer is checked per run, not proved); the harness "
                "generator and its fault-injecting identity-framing decoder (modelled as test_dec). Cff::read/Cff2::read validation of the table prefix is assumed. Partition independence is proved for glyf-only patch sets (false as byte equality for gvar/CFF/CFF2: F-C18-4)."),
    technique="Coq proof (induction over the builder loop, sorted-map extensionality, Permutation) over hand-written Gallina model + vm_compute correspondence with incremental-font-transfer through the public PatchGroup API",
    modelled=["incremental-font-transfer/src/patch_group.rs: PatchGroup::apply_next_patches_with_decoder (status map, invalidating vs non-invalidating part)",
              "incremental-font-transfer/src/font_patch.rs: FontRef::apply_table_keyed_patch, FontRef::apply_glyph_keyed_patches (compat-id checks, patch readers)",
              "incremental-font-transfer/src/table_keyed.rs: apply_table_keyed_patch, apply_table_patch, copy_unprocessed_tables",
              "incremental-font-transfer/src/glyph_keyed.rs: apply_glyph_keyed_patches, table_tag_list, dedup_gid_replacement_data, retained_glyphs_in_font, retained_glyphs_total_size, "
              "patch_offset_array, OffsetArrayBuilder::build (literal run-by-run loop), OffsetType, GlyfAndLoca and Gvar as GlyphDataOffsetArray (offset_type/available_offset_types/offset_for/all_offsets_are_ascending/get/add_to_font incl. klippa Serializer capacity and object order), applied-bit marking",
              "read-fonts/src/tables/ift.rs + generated readers: TableKeyedPatch/TablePatch/GlyphKeyedPatch/GlyphPatches::read, GlyphPatches::glyph_data_for_table (GlyphDataIterator)",
              "write-fonts FontBuilder as a sorted finite map (add_raw = BTreeMap::insert); head.checkSumAdjustment (bytes 8..12) compared modulo"],
    not_covered=["Cff::read / Cff2::read validation of the parts of the CFF/CFF2 table before the charstrings INDEX (assumed; the harness authors valid tables)",
                 "partition/grouping independence as identical TABLES is proved for glyf-only patch sets; for gvar/CFF/CFF2 it is false (finding F-C18-4: widths never shrink) and only equality of glyph contents is tested",
                 "error VALUES of the literal loop vs the glyph-by-glyph specification: success/failure and the successful result are proved equal (c18_build_runs_eq_build_loop), the error kind can differ (Examples2.v c18_run_loop_error_differs); the model itself is the literal loop, so correspondence covers its errors",
                 "grouping independence with gvar listed as equality of whole FONTS: proved only at the offset-array level under equal offset type (c18_offset_array_grouping) plus the data placement lemma; the byte-level re-read read_gvar(gvar_assemble ..) is not proved (tested by the two-call groupings of the harness)",
                 "widening thresholds (131070 bytes) for glyf/gvar: implementation-only oracle (inputs too large for vm_compute shards)",
                 "patch selection (which URIs form the group): C19; the harness reads the group back through PatchGroup::uris()",
                 "real brotli decoders: outside the model (decoder is a parameter)"],
    assumptions=["decoder is a function of (call index, input, dictionary, max length) — arbitrary otherwise",
                 "maxp/head/IFT tables of the base font are structurally valid (the harness only damages glyf/loca/maxp.numGlyphs/head.indexToLocFormat and removes tables)",
                 "glyph ids and application bit indices are non-negative (they are unsigned in Rust); base font has no duplicate table tags"],
)
