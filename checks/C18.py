SPEC = dict(
    id="C18",
    bin="c18",
    coq_dir="C18",
    coq_targets=["C18/Proofs.vo", "C18/Examples.vo"],
    allowed_axioms=[],
    level_text="(filled in below)",
    level_note="",
    technique="Coq proof over hand-written Gallina model + vm_compute correspondence with incremental-font-transfer",
    modelled=[],
    not_covered=[],
    assumptions=[],
)
