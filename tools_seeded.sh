#!/bin/bash
# Run every seeded mutant (seeded/<id>/<m>/patch.diff) through ./fv mutate for its property; log DETECTED/missed.
# usage: tools_seeded.sh [id ...]   (default: all)
cd "$(dirname "$0")"
ids="$@"; [ -z "$ids" ] && ids=$(ls seeded)
for id in $ids; do
  for m in seeded/$id/*/; do
    [ -f "$m/patch.diff" ] || continue
    if [ -n "$MUTS" ]; then case " $MUTS " in *" $(basename $m) "*) ;; *) continue;; esac; fi
    res=$(./fv mutate "$m/patch.diff" $id 2>&1 | tail -4 | tr '\n' ' ')
    echo "$(date +%H:%M) $id $(basename $m): $res" >> .cache/seeded_results.txt
  done
done
