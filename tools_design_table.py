#!/usr/bin/env python3
"""Regenerate the rows of DESIGN.md §7.1 (per-property status) and the theorem totals in DESIGN.md from the evidence files
written by the latest check runs (evidence/Cxx.json: coverage.theorems / model_cases / evaluations / not_covered).
The 'tied by' prefix (T (...) + ) of each row is kept as it is; only counts, theorem lists and the not-covered cell change."""
import json, os, re
ROOT = os.path.dirname(os.path.abspath(__file__))
path = os.path.join(ROOT, "DESIGN.md")
lines = open(path).read().split("\n")
total = 0
for i, l in enumerate(lines):
    m = re.match(r"\| (C\d\d) \| \*\*(\d+) theorems\*\*: ", l)
    if not m:
        continue
    pid = m.group(1)
    ev = json.load(open(os.path.join(ROOT, "evidence", pid + ".json")))
    cov = ev["coverage"]
    ths = [t[len(pid) + 1:] if t.lower().startswith(pid.lower() + "_") else t for t in cov["theorems"]]
    total += len(ths)
    cells = l.split(" | ")
    tied = cells[2]
    tied = re.sub(r"C \(\d+ model cases/run\)", "C (%d model cases/run)" % cov.get("model_cases", 0), tied)
    tied = re.sub(r"S \(\d+ implementation evaluations/run\)", "S (%d implementation evaluations/run)" % cov.get("evaluations", 0), tied)
    nc = "; ".join(cov.get("not_covered", []))
    if len(nc) > 900:
        nc = nc[:900] + "…"
    lines[i] = "| %s | **%d theorems**: %s | %s | %s |" % (pid, len(ths), ", ".join("`%s`" % t for t in ths), tied, nc)
txt = "\n".join(lines)
txt = re.sub(r"\d+ property theorems in total", "%d property theorems in total" % total, txt)
txt = re.sub(r"per-property status table \(\d+ theorems\)", "per-property status table (%d theorems)" % total, txt)
open(path, "w").write(txt)
print("theorems total:", total)
