"""Generic check runner: Coq proof obligations + audit, harness build/run against /repo's current
tree, model-vs-implementation correspondence shards evaluated by coqc (vm_compute), known findings,
evidence file.  One spec per property lives in checks/<id>.py (dict SPEC)."""
import concurrent.futures as cf
import glob
import importlib.util
import json
import os
import re
import subprocess
import sys
import time

ROOT = os.path.dirname(os.path.dirname(os.path.abspath(__file__)))
COQ = os.path.join(ROOT, "coq")
CACHE = os.path.join(ROOT, ".cache")
# Locations that `./fv mutate` overrides so that a mutated private copy of /repo can be checked without touching /repo
REPO = os.environ.get("FV_REPO", "/repo")
HARNESS_ROOT = os.environ.get("FV_HARNESS_ROOT", ROOT)
TARGET = os.environ.get("FV_TARGET", os.path.join(CACHE, "target"))
TAG = os.environ.get("FV_TAG", "")
GUARD = "googlefonts_fontations_verif"
FORBIDDEN = re.compile(
    r"\b(Admitted|admit|Axiom|Axioms|Parameter|Parameters|Conjecture|Conjectures|Hypothesis|Hypotheses|Variable|Variables"
    r"|Admit Obligations|bypass_check|type-in-type|impredicative-set)\b|Unset\s+(Guard|Positivity|Universe)")
COMMON_TRUSTED = [
    "Coq 8.16.1 kernel incl. vm_compute conversion (no native_compute); coqchk -o re-checks the Props closure in the thorough tier (axioms, type-in-type, unsafe fixpoints, assumed positivity must all be <none> or allow-listed)",
    "axioms: none declared by this development; Print Assumptions of every property theorem is parsed on every run and compared with the allow-list in the spec",
    "hand-written Gallina model of the anchored Rust code (which functions: see `modelled`); tied to /repo's working tree on every run by the correspondence check: the Rust harness runs the real code and coqc evaluates the model's executable definitions on the same cases (vm_compute)",
    "the harness generators and canonicalisers bound what the correspondence can notice; rustc/LLVM and the Rust std containers are trusted",
]


def load_specs():
    specs = {}
    for p in sorted(glob.glob(os.path.join(ROOT, "checks", "C*.py"))):
        sp = importlib.util.spec_from_file_location("chk_" + os.path.basename(p)[:-3], p)
        m = importlib.util.module_from_spec(sp)
        sp.loader.exec_module(m)
        specs[m.SPEC["id"]] = m.SPEC
    return specs


def sh(cmd, timeout=None, cwd=None, env=None):
    e = dict(os.environ)
    e.update({"CARGO_NET_OFFLINE": "true"})
    if env:
        e.update(env)
    t0 = time.time()
    try:
        p = subprocess.run(cmd, shell=isinstance(cmd, str), cwd=cwd, env=e, timeout=timeout,
                           stdout=subprocess.PIPE, stderr=subprocess.STDOUT, text=True, errors="replace")
        return p.returncode, p.stdout, time.time() - t0
    except subprocess.TimeoutExpired as ex:
        out = ex.stdout or ""
        if isinstance(out, bytes):
            out = out.decode(errors="replace")
        return 124, out + "\n[timeout]", time.time() - t0


def regen_coqproject():
    files = sorted(os.path.relpath(p, COQ) for p in glob.glob(os.path.join(COQ, "**", "*.v"), recursive=True))
    head = ["-Q . FV",
            "-arg -w -arg -notation-overridden,-deprecated-hint-without-locality,-deprecated-instance-without-locality,-ambiguous-paths,-deprecated-syntactic-definition"]
    txt = "\n".join(head + files) + "\n"
    cp = os.path.join(COQ, "_CoqProject")
    old = open(cp).read() if os.path.exists(cp) else ""
    if old != txt or not os.path.exists(os.path.join(COQ, "Makefile")):
        open(cp, "w").write(txt)
        sh("coq_makefile -f _CoqProject -o Makefile", cwd=COQ)


def coq_build(targets, timeout=2400):
    os.makedirs(CACHE, exist_ok=True)
    lock = os.path.join(CACHE, "coq.lock")
    fd = os.open(lock, os.O_CREAT | os.O_RDWR)
    import fcntl
    fcntl.flock(fd, fcntl.LOCK_EX)
    try:
        regen_coqproject()
        return sh("make -j16 " + " ".join(targets), cwd=COQ, timeout=timeout)
    finally:
        fcntl.flock(fd, fcntl.LOCK_UN)
        os.close(fd)


def audit_coq(dirs):
    """grep the given coq sub-directories (and Lib) for forbidden constructs; comments are stripped."""
    bad = []
    for d in set(dirs) | {"Lib"}:
        for p in glob.glob(os.path.join(COQ, d, "**", "*.v"), recursive=True):
            src = open(p).read()
            src = strip_comments(src)
            for ln, line in enumerate(src.split("\n"), 1):
                m = FORBIDDEN.search(line)
                if m:
                    # Section-local Variable/Hypothesis are allowed only inside a Section
                    if m.group(1) in ("Variable", "Variables", "Hypothesis", "Hypotheses") and in_section(src, ln):
                        continue
                    bad.append("%s:%d: %s" % (os.path.relpath(p, ROOT), ln, line.strip()[:120]))
    return bad


def strip_comments(s):
    out, depth, i = [], 0, 0
    while i < len(s):
        if s.startswith("(*", i):
            depth += 1
            i += 2
        elif s.startswith("*)", i) and depth > 0:
            depth -= 1
            i += 2
        else:
            if depth == 0 or s[i] == "\n":
                out.append(s[i])
            i += 1
    return "".join(out)


def in_section(src, ln):
    depth = 0
    for k, line in enumerate(src.split("\n"), 1):
        if k >= ln:
            break
        if re.match(r"\s*Section\s+\w+", line):
            depth += 1
        elif re.match(r"\s*End\s+\w+", line) and depth > 0:
            depth -= 1
    return depth > 0


def check_props(spec):
    """All Props files of the spec (default coq/<dir>/Props.v), results merged."""
    files = spec.get("props", [spec["coq_dir"] + "/Props.v"])
    tot = dict(ok=True, rc=0, theorems=[], axioms=[], closed=0, missing_print=[], log="", nonexact=[])
    for f in files:
        r = check_props_file(os.path.join(COQ, f))
        tot["ok"] = tot["ok"] and r["ok"]
        tot["rc"] = tot["rc"] or r["rc"]
        for k in ("theorems", "axioms", "missing_print", "nonexact"):
            tot[k] = tot[k] + [x for x in r[k] if x not in tot[k]]
        tot["closed"] += r["closed"]
        tot["log"] += r["log"]
    return tot


def check_props_file(props):
    """(Re)compile one Props file by hand to capture Print Assumptions."""
    src = strip_comments(open(props).read())
    theorems = re.findall(r"^\s*Theorem\s+(\w+)", src, re.M)
    printed = re.findall(r"^\s*Print Assumptions\s+(\w+)\s*\.", src, re.M)
    rc, out, _ = sh(["coqc", "-q", "-Q", COQ, "FV", "-w", "-notation-overridden,-deprecated-hint-without-locality,-deprecated-instance-without-locality,-ambiguous-paths,-deprecated-syntactic-definition", props], timeout=1200, cwd=COQ)
    axioms = set()
    closed = out.count("Closed under the global context")
    for m in re.finditer(r"^Axioms:\n((?:.+\n?)*?)(?=^\S|\Z)", out, re.M):
        pass
    # robust: any line of the form "name : type" following "Axioms:" until blank/next block
    cur = False
    for line in out.split("\n"):
        if line.startswith("Axioms:"):
            cur = True
            continue
        if cur:
            # an axiom entry starts at column 0 with its qualified name; its type may continue on indented lines
            m = re.match(r"^([A-Za-z_][\w.']*)\s*(:|$)", line)
            if m and not line.startswith(("Closed under", "Axioms:", "File ", "Warning")):
                axioms.add(m.group(1))
            elif line.startswith(" ") or line.strip() == "":
                continue
            else:
                cur = False
    missing_print = sorted(set(theorems) - set(printed))
    # Props.v must contain only statements closed by `exact`
    bodies = re.findall(r"Proof\.(.*?)Qed\.", src, re.S)
    sloppy = [b.strip()[:60] for b in bodies if not re.fullmatch(r"\s*exact\s+[^.]+(\.\w+)*\s*\.\s*", b)
              and "Example" not in b]
    return dict(ok=(rc == 0), rc=rc, theorems=theorems, axioms=sorted(axioms), closed=closed,
                missing_print=missing_print, log=out[-4000:], nonexact=sloppy)


def coqchk_props(spec):
    """Independent re-check (coqchk) of the compiled Props modules and everything they depend on; returns
    (ok, axioms, flags, log).  `flags` lists any non-<none> entry of the type-in-type / unsafe fixpoint /
    assumed-positivity lines of the context summary."""
    files = spec.get("props", [spec["coq_dir"] + "/Props.v"])
    mods = ["FV." + f[:-2].replace("/", ".") for f in files]
    rc, out, _ = sh(["coqchk", "-o", "-silent", "-Q", COQ, "FV"] + mods, timeout=3000, cwd=COQ)
    axioms, flags = [], []
    lines = out.split("\n")
    i = 0
    while i < len(lines):
        l = lines[i]
        m = re.match(r"^\* (Axioms|Constants/Inductives relying on type-in-type|Constants/Inductives relying on unsafe \(co\)fixpoints|Inductives whose positivity is assumed):\s*(.*)$", l)
        if m:
            items = []
            if m.group(2).strip() and m.group(2).strip() != "<none>":
                items.append(m.group(2).strip())
            j = i + 1
            while j < len(lines) and lines[j].startswith("    "):
                items.append(lines[j].strip())
                j += 1
            if m.group(1) == "Axioms":
                axioms = items
            elif items:
                flags.append(m.group(1) + ": " + ", ".join(items))
            i = j
            continue
        i += 1
    return (rc == 0 and "CONTEXT SUMMARY" in out), axioms, flags, out[-3000:]


def cargo_build(bins, release=False, crate_dir="harness"):
    cmd = "cargo build --offline " + ("--release " if release else "") + " ".join("--bin " + b for b in bins)
    return sh(cmd, cwd=os.path.join(HARNESS_ROOT, crate_dir), timeout=3000,
              env={"RUSTFLAGS": "--cfg " + GUARD, "CARGO_TARGET_DIR": TARGET})


def run_shard(path):
    rc, out, dt = sh(["coqc", "-q", "-noglob", "-Q", COQ, "FV", "-w", "-all", path], timeout=1800, cwd=os.path.dirname(path))
    for ext in (".vo", ".vok", ".vos", ".glob"):
        try:
            os.remove(path[:-2] + ext)
        except OSError:
            pass
    m = re.search(r"=\s*\[(.*?)\]\s*:\s*list N", out, re.S)
    if rc != 0 or not m:
        return path, None, out[-1500:]
    idx = [int(x) for x in re.findall(r"(\d+)%N", m.group(1))] + [int(x) for x in re.findall(r"(?<![\d%])(\d+)(?!%|\d)", re.sub(r"\d+%N", "", m.group(1)))]
    return path, sorted(set(idx)), ""


def run_shards(case_dir):
    shards = sorted(glob.glob(os.path.join(case_dir, "cases_*.v")),
                    key=lambda p: int(re.findall(r"cases_(\d+)\.v", p)[0]))
    res = []
    with cf.ThreadPoolExecutor(max_workers=16) as ex:
        for r in ex.map(run_shard, shards):
            res.append(r)
    return res


def merge_stats(tot, st, prefix):
    for k in ("evaluations", "distinct_nontrivial", "model_cases", "shards"):
        tot[k] = int(tot.get(k, 0)) + int(st.get(k, 0))
    tot["samples"] = (tot.get("samples", []) + st.get("samples", []))[:8]
    tot["oracle_failures"] = tot.get("oracle_failures", []) + st.get("oracle_failures", [])
    tot["rule"] = (tot.get("rule", "") + " | " if tot.get("rule") else "") + ((prefix + ": ") if prefix else "") + st.get("rule", "")
    dist = tot.setdefault("distribution", {})
    for k, v in st.get("distribution", {}).items():
        dist[(prefix + "." if prefix else "") + k] = v
    for k, v in st.items():
        if k not in tot:
            tot[k] = v


def load_known():
    p = os.path.join(ROOT, "known_findings.json")
    if not os.path.exists(p):
        return {"findings": [], "fixed": []}
    return json.load(open(p))


def shard_case_text(path, idx):
    lines = open(path).read().split("\n")
    try:
        start = next(i for i, l in enumerate(lines) if l.startswith("Definition cases"))
        return lines[start + 1 + idx].strip().rstrip(";")[:4000]
    except Exception:
        return ""


def check(pid, tier="quick", seed=None, extra_env=None):
    return check_locked(pid, tier, seed, extra_env)


def mutate(patch, pids, tier="quick"):
    """Development aid: check a MUTATED PRIVATE COPY of /repo (git worktree of HEAD + the patch) with a private copy of the
    harness crates whose path dependencies point at that copy. /repo itself is never touched; no lock is needed.
    Note: Coq files generated by translators (coq_pre_cmd) are regenerated from the mutated copy into the shared coq/ tree
    and regenerated again from /repo by the next normal check."""
    import shutil
    import uuid
    tag = "_mut_" + uuid.uuid4().hex[:8]
    scratch = os.path.join(os.environ.get("FV_MUT_ROOT", "/tmp/fv_mut"), tag)   # scratch worktrees live outside /repo and /verif
    os.makedirs(scratch, exist_ok=True)
    repo2 = os.path.join(scratch, "repo")
    rcs = {}
    try:
        rc, out, _ = sh(["git", "-C", "/repo", "worktree", "add", "--detach", repo2, "HEAD"])
        if rc != 0:
            print("cannot create worktree:\n" + out)
            return 2
        rc, out, _ = sh(["git", "-C", repo2, "apply", os.path.abspath(patch)])
        if rc != 0:
            print("patch does not apply:\n" + out)
            return 2
        for crate in ("harness", "harness_ft"):
            src = os.path.join(ROOT, crate)
            if not os.path.isdir(src):
                continue
            dst = os.path.join(scratch, crate)
            shutil.copytree(src, dst, ignore=shutil.ignore_patterns("target"))
            ct = os.path.join(dst, "Cargo.toml")
            txt = open(ct).read().replace('"/repo/', '"' + repo2 + '/')
            open(ct, "w").write(txt)
            cfg = os.path.join(dst, ".cargo", "config.toml")
            if os.path.exists(cfg):
                open(cfg, "w").write("[net]\noffline = true\n")
        tgt = os.path.join(scratch, "target")
        if os.path.isdir(os.path.join(CACHE, "target")):
            sh(["cp", "-al", os.path.join(CACHE, "target"), tgt])
        env = dict(os.environ)
        env.update({"FV_REPO": repo2, "FV_HARNESS_ROOT": scratch, "FV_TARGET": tgt, "FV_TAG": tag})
        for pid in pids:
            p = subprocess.run([sys.executable, os.path.join(ROOT, "fv"), "check", pid, "--tier", tier], env=env, cwd=ROOT)
            rcs[pid] = p.returncode
    finally:
        # translators wrote Gallina generated from the MUTATED copy into the shared coq/ tree: regenerate from /repo
        specs = load_specs()
        for pid in pids:
            pre = specs.get(pid, {}).get("coq_pre_cmd")
            if pre:
                sh(pre, cwd=ROOT, timeout=600, env={"FV_REPO": "/repo"})
        sh(["git", "-C", "/repo", "worktree", "remove", "--force", repo2])
        sh(["git", "-C", "/repo", "worktree", "prune"])
        shutil.rmtree(scratch, ignore_errors=True)
        shutil.rmtree(os.path.join(CACHE, "cases"), ignore_errors=False) if False else None
        for pid in pids:
            shutil.rmtree(os.path.join(CACHE, "cases", pid + tag), ignore_errors=True)
            shutil.rmtree(os.path.join(ROOT, "replays", pid + tag), ignore_errors=True)
    why = {}
    for pid in pids:
        try:
            ev = json.load(open(os.path.join(CACHE, "mut_evidence", pid + tag + ".json")))
            c = ev["coverage"]
            why[pid] = "oracle_failures/violations=%s mismatches=%s no_longer_checks=%s cases=%s" % (
                ev.get("violations"), c.get("model_vs_impl_mismatches"), [w[:90] for w in c.get("no_longer_checks", [])][:3], c.get("evaluations"))
        except Exception as ex:
            why[pid] = "no evidence (%s)" % ex
    print("mutate %s: %s" % (os.path.basename(patch), {k: ("DETECTED" if v else "missed") for k, v in rcs.items()}))
    for pid in pids:
        print("  %s: %s" % (pid, why[pid]))
        if "harness does not build" in why[pid] or "cases=0" in why[pid]:
            print("  WARNING: detection for %s is because the harness did not build/run against the mutated copy — not a genuine detection unless the mutation changes an API" % pid)
    return 0


def check_locked(pid, tier="quick", seed=None, extra_env=None):
    specs = load_specs()
    spec = specs[pid]
    t0 = time.time()
    seed = int(seed if seed is not None else os.environ.get("VERIF_SEED", "20260930"))
    env = {"VERIF_SEED": str(seed), "VERIF_TIER": tier, "FV_REPO": REPO}
    broken = []       # things that no longer check (theorem / correspondence / tie)
    notes = []
    ev_path = os.path.join(ROOT, "evidence", pid + ".json") if not TAG else os.path.join(CACHE, "mut_evidence", pid + TAG + ".json")
    os.makedirs(os.path.dirname(ev_path), exist_ok=True)
    if os.path.exists(ev_path):
        os.remove(ev_path)

    # 0. translators (regenerate Gallina from /repo's current source); failure = broken translation tie
    d = spec["coq_dir"]
    pre = spec.get("coq_pre_cmd")
    if pre:
        rcp, outp, _ = sh(pre, cwd=ROOT, timeout=600, env={"FV_REPO": REPO})
        if rcp != 0:
            broken.append({"kind": "broken-translation", "what": "translator `%s` failed on /repo's current source" % pre, "log": outp[-3000:]})
    # 1. proofs
    deps = spec.get("coq_targets", [d + "/Proofs.vo"])
    rc, out, dt_coq = coq_build(deps)
    if rc != 0:
        broken.append({"kind": "broken-theorem", "what": "coq build of %s failed" % deps, "log": out[-3000:]})
    pr = check_props(spec) if rc == 0 else dict(ok=False, theorems=[], axioms=[], closed=0, missing_print=[], log="", nonexact=[], rc=1)
    if rc == 0 and not pr["ok"]:
        broken.append({"kind": "broken-theorem", "what": "coq/%s/Props.v does not compile" % d, "log": pr["log"][-3000:]})
    allowed = set(spec.get("allowed_axioms", []))
    extra_ax = [a for a in pr["axioms"] if a not in allowed]
    if extra_ax:
        broken.append({"kind": "broken-theorem", "what": "unexpected axioms under Print Assumptions: %s" % extra_ax})
    if pr["missing_print"]:
        broken.append({"kind": "broken-theorem", "what": "theorems without Print Assumptions: %s" % pr["missing_print"]})
    if pr["nonexact"]:
        broken.append({"kind": "broken-theorem", "what": "Props.v proofs not of the form `exact lemma`: %s" % pr["nonexact"]})
    aud = audit_coq([d] + spec.get("coq_extra_dirs", []))
    if aud:
        broken.append({"kind": "broken-theorem", "what": "audit: forbidden constructs", "log": "\n".join(aud[:20])})
    chk = None
    if tier == "thorough" and rc == 0 and pr["ok"]:
        okc, ax_c, flags_c, log_c = coqchk_props(spec)
        # coqchk names library axioms by their full path (Coq.Logic.Classical_Prop.classic); compare by suffix
        extra_c = [a for a in ax_c if not any(a == x or a.endswith("." + x) for x in allowed)]
        chk = {"ok": okc, "axioms": ax_c, "flags": flags_c}
        if not okc:
            broken.append({"kind": "broken-theorem", "what": "coqchk failed on the Props closure of %s" % d, "log": log_c})
        if extra_c:
            broken.append({"kind": "broken-theorem", "what": "coqchk reports unexpected axioms: %s" % extra_c})
        if flags_c:
            broken.append({"kind": "broken-theorem", "what": "coqchk reports disabled kernel checks: %s" % flags_c})
    obligations = len(pr["theorems"]) if pr["theorems"] else sum(len(re.findall(r"^\s*Theorem\s", open(os.path.join(COQ, f)).read(), re.M)) for f in spec.get("props", [d + "/Props.v"]))
    discharged = len(pr["theorems"]) if (rc == 0 and pr["ok"] and not extra_ax) else 0

    # 2. harness against the current /repo tree
    stats = {}
    mism = []
    shard_results = []
    case_dir = os.path.join(CACHE, "cases", pid + TAG)
    bins = spec.get("bins", [spec["bin"]])
    rcb, outb, dt_build = cargo_build(bins, release=spec.get("release", False), crate_dir=spec.get("crate_dir", "harness"))
    if rcb != 0:
        broken.append({"kind": "broken-correspondence", "what": "harness does not build against /repo's current tree", "log": outb[-3000:]})
    else:
        prof = "release" if spec.get("release", False) else "debug"
        sh("rm -rf " + case_dir)
        for b in bins:
            exe = os.path.join(TARGET, prof, b)
            bdir = os.path.join(case_dir, b)
            os.makedirs(bdir, exist_ok=True)
            rch, outh, dt_run = sh([exe, tier, "--out", bdir] + spec.get("harness_args", []), timeout=spec.get("harness_timeout", 3000), env=env, cwd=ROOT)
            sp = os.path.join(bdir, "stats.json")
            if rch != 0 or not os.path.exists(sp):
                broken.append({"kind": "broken-correspondence", "what": "harness %s exited with %d" % (b, rch), "log": outh[-3000:]})
                continue
            st1 = json.load(open(sp))
            merge_stats(stats, st1, b if len(bins) > 1 else None)
            notes.append(outh.strip()[-400:])
            # 3. model vs implementation
            if rc == 0:
                res = run_shards(bdir)
                shard_results += res
                for path, idx, err in res:
                    if idx is None:
                        broken.append({"kind": "broken-correspondence", "what": "shard %s/%s failed to evaluate" % (b, os.path.basename(path)), "log": err})
                    elif idx:
                        cs = [{"shard": b + "/" + os.path.basename(path), "index": i, "case": shard_case_text(path, i)} for i in idx[:5]]
                        mism.extend(cs)
                        broken.append({"kind": "broken-correspondence",
                                       "what": "model (coq/%s) and implementation disagree on %d case(s) of %s/%s" % (d, len(idx), b, os.path.basename(path)),
                                       "cases": cs})

    # 4. decide
    known = load_known()
    known_keys = {(k["property"], k["key"]): k for k in known.get("findings", [])}
    fails = stats.get("oracle_failures", [])
    unknown, knownhit = [], []
    for f in fails:
        key = f.get("key") if isinstance(f, dict) else None
        if key is not None and (pid, key) in known_keys:
            knownhit.append((key, known_keys[(pid, key)]))
        else:
            unknown.append(f)
    seen = set()
    for key, k in knownhit:
        if key not in seen:
            seen.add(key)
            print("KNOWN-FINDING: property=%s %s" % (pid, k["what"]))
    violations = 0
    rdir = os.path.join(ROOT, "replays", pid + TAG)
    if unknown or broken:
        os.makedirs(rdir, exist_ok=True)
        rp = os.path.join(rdir, "%d-%s.json" % (seed, tier))
        rep = {"property": pid, "seed": seed, "tier": tier,
               "replay_cmd": "./fv replay replays/%s/%s" % (pid, os.path.basename(rp))}
        if unknown:
            rep["kind"] = "impl-counterexample"
            rep["case"] = unknown[0]
            rep["more"] = unknown[1:10]
            rep["no_longer_checks"] = broken
            violations = len(unknown)
            json.dump(rep, open(rp, "w"), indent=1)
            print("VIOLATION property=%s replay=%s" % (pid, os.path.relpath(rp, ROOT)))
        else:
            rep["kind"] = broken[0]["kind"]
            rep["no_longer_checks"] = broken
            rep["theorem_or_correspondence"] = [b["what"] for b in broken]
            violations = len(broken)
            json.dump(rep, open(rp, "w"), indent=1)
            print("VIOLATION property=%s replay=%s no-failing-input-found" % (pid, os.path.relpath(rp, ROOT)))

    # 5. evidence
    n_model_cases = stats.get("model_cases", 0)
    cov = {
        "obligations": max(obligations, 1),
        "discharged": discharged,
        "checker_cmd": "make -C coq -j16 %s && coqc -Q coq FV coq/%s/Props.v (Print Assumptions parsed; audit grep)" % (" ".join(deps), d),
        "trusted_base": COMMON_TRUSTED + spec.get("trusted_base", []) + ["library axioms allowed for this property: %s" % (sorted(allowed) or "none (all theorems Closed under the global context)")],
        "theorems": pr["theorems"],
        "print_assumptions": {"closed": pr["closed"], "axioms": pr["axioms"]},
        "coqchk": chk if chk is not None else "not run in this tier (thorough only)",
        "evaluations": int(stats.get("evaluations", 0)),
        "distinct_nontrivial": int(stats.get("distinct_nontrivial", 0)),
        "rule": stats.get("rule", ""),
        "samples": stats.get("samples", []) or [{"note": "no harness samples (harness did not run)"}],
        "traces_validated_against_impl": int(n_model_cases),
        "model_vs_impl_mismatches": len(mism),
        "shards": len(shard_results),
        "distribution": stats.get("distribution", {}),
        "modelled": spec.get("modelled", []),
        "not_covered": spec.get("not_covered", []),
        "known_findings_seen": sorted(seen),
        "no_longer_checks": [b["what"] for b in broken],
        "exhaustive": False,
    }
    for k, v in stats.items():
        if k not in cov and k not in ("oracle_failures",):
            cov[k] = v
    ev = {
        "property_id": pid, "tier": tier, "seed": seed, "level": "proof",
        "coverage": cov,
        "assumptions": spec.get("assumptions", []),
        "wall_s": round(time.time() - t0, 2),
        "violations": violations,
    }
    json.dump(ev, open(ev_path, "w"), indent=1)
    print("%s %s: theorems=%d/%d cases=%d model_cases=%d mismatches=%d oracle_failures=%d known=%d wall=%.1fs" % (
        pid, tier, discharged, obligations, cov["evaluations"], n_model_cases, len(mism), len(unknown), len(seen), time.time() - t0))
    return 1 if violations else 0


def setup():
    """Build every registered spec's Coq targets and harness bins (failures of one spec do not stop the others)."""
    specs = load_specs()
    registered = set()
    mp = os.path.join(ROOT, "MANIFEST.json")
    if os.path.exists(mp):
        registered = {c["property_id"] for c in json.load(open(mp)).get("checks", [])}
    use = {k: v for k, v in specs.items() if (not registered or k in registered)}
    targets = []
    for s in use.values():
        if s.get("coq_pre_cmd"):
            r, o, _ = sh(s["coq_pre_cmd"], cwd=ROOT, timeout=600)
            print("translator %s: rc=%d" % (s["coq_pre_cmd"], r))
        targets += s.get("coq_targets", [s["coq_dir"] + "/Proofs.vo"])
    rc, out, dt = coq_build(["-k"] + sorted(set(targets)))
    print("coq build (%d targets): rc=%d %.0fs" % (len(set(targets)), rc, dt))
    if rc != 0:
        print(out[-3000:])
    crates = sorted({s.get("crate_dir", "harness") for s in use.values()})
    for cd in crates:
        for rel in (False, True):
            bins = sorted({b for s in use.values() for b in s.get("bins", [s["bin"]])
                           if bool(s.get("release")) == rel and s.get("crate_dir", "harness") == cd})
            if not bins:
                continue
            rc2, out2, dt2 = cargo_build(bins, release=rel, crate_dir=cd)
            print("cargo build %s%s (%d bins): rc=%d %.0fs" % (cd, " --release" if rel else "", len(bins), rc2, dt2))
            if rc2 != 0:
                print(out2[-3000:])
                for b in bins:
                    r, o, _ = cargo_build([b], release=rel, crate_dir=cd)
                    print("  bin %s rc=%d" % (b, r))
    return 0


def manifest():
    reg = set(open(os.path.join(ROOT, "checks", "registered.txt")).read().split())
    specs = {k: v for k, v in load_specs().items() if k in reg}
    base = json.load(open(os.path.join(ROOT, "manifest_base.json")))
    checks = []
    for pid in sorted(specs):
        s = specs[pid]
        checks.append({
            "property_id": pid,
            "quick_cmd": "./fv check %s --tier quick" % pid,
            "thorough_cmd": "./fv check %s --tier thorough" % pid,
            "evidence_file": "evidence/%s.json" % pid,
            "replay_cmd_template": "./fv replay {path}",
            "engine": "coq-proof+correspondence",
            "level_claimed": {"category": "proof", "text": s["level_text"], "design_ref": s.get("design_ref", "DESIGN.md §3 " + pid)},
            "level_note": s["level_note"],
            "technique": s.get("technique", "Coq 8.16 theorems about an executable Gallina model + vm_compute correspondence against the Rust implementation"),
        })
    base["checks"] = checks
    claimed = set(specs)
    base["not_applicable"] = [n for n in base.get("not_applicable", []) if n["property_id"] not in claimed]
    json.dump(base, open(os.path.join(ROOT, "MANIFEST.json"), "w"), indent=1)
    print("MANIFEST.json: %d checks, %d not_applicable" % (len(checks), len(base["not_applicable"])))
    return 0


def replay(path):
    rep = json.load(open(path))
    os.environ["VERIF_SEED"] = str(rep.get("seed", 20260930))
    print(json.dumps({k: rep[k] for k in rep if k in ("property", "kind", "case", "theorem_or_correspondence")}, indent=1)[:3000])
    return check(rep["property"], rep.get("tier", "quick"), rep.get("seed"))
